#!/bin/bash
# Offline setup: everything the checks need is already in /venv (pyrefact's deps + hypothesis).
# Optional extras (numpy for the numpy rule families, atheris for the fuzz tier) are installed from the
# offline wheelhouse into /verif/.deps when absent; their absence only disables those sub-checks.
HERE="$(cd "$(dirname "${BASH_SOURCE[0]}")" && pwd)"
cd "$HERE" || exit 1
export PIP_NO_INDEX=1
/venv/bin/python -c "import hypothesis" 2>/dev/null || /venv/bin/pip install --no-index --find-links /opt/veriftools/wheels hypothesis || exit 1
if [ ! -d .deps/numpy ]; then
  /venv/bin/pip install -q --no-index --find-links /opt/veriftools/wheels --target .deps numpy >/dev/null 2>&1 || echo "note: numpy not installed"
fi
PYTHONPATH="$HERE:/repo" /venv/bin/python -c "from vf import env; env.setup(); print('setup ok')"
