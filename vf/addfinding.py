"""Developer helper: python -m vf.addfinding ID PROPERTY known|fixed REPLAY 'what' [--bucket-re RE] [--bucket B] [--predicate P] [--commit SHA] [--excluded-by TEXT]
Edits known_findings.json (never called by a check)."""
import argparse, json, os
VERIF = os.path.dirname(os.path.dirname(os.path.abspath(__file__)))
ap = argparse.ArgumentParser()
ap.add_argument("id"); ap.add_argument("property"); ap.add_argument("status", choices=["known", "fixed"])
ap.add_argument("replay"); ap.add_argument("what")
ap.add_argument("--bucket-re"); ap.add_argument("--bucket"); ap.add_argument("--predicate"); ap.add_argument("--commit"); ap.add_argument("--excluded-by")
a = ap.parse_args()
path = os.path.join(VERIF, "known_findings.json")
data = json.load(open(path))
data["findings"] = [f for f in data["findings"] if f["id"] != a.id]
e = {"id": a.id, "property": a.property, "status": a.status, "what": a.what, "replay": a.replay}
for k, v in (("bucket_re", a.bucket_re), ("bucket", a.bucket), ("predicate", a.predicate), ("commit", a.commit), ("excluded_by", a.excluded_by)):
    if v: e[k] = v
assert os.path.exists(os.path.join(VERIF, a.replay)), a.replay
data["findings"].append(e)
data["findings"].sort(key=lambda f: f["id"])
json.dump(data, open(path, "w"), indent=1)
print("ok", a.id)
