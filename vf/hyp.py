"""Hypothesis as a seeded generator, run in chunks so that the wall-clock budget is checked BETWEEN Hypothesis
runs and never inside a test body (a time-dependent early return inside the body makes data generation flaky)."""
from __future__ import annotations

import time

from hypothesis import HealthCheck, Phase, given, seed as hseed, settings

from vf import env


def run(strategy, body, n, seed, budget_s, acc=None, chunk=60):
    """Call body(value) for up to n values drawn from strategy; returns True when the budget ended the search early."""
    t0 = time.time()
    done = 0
    idx = 0
    while done < n:
        if time.time() - t0 > budget_s:
            if acc is not None:
                acc.budget_exhausted = True
            return True
        k = min(chunk, n - done)

        @hseed(env.subseed(seed, "chunk", idx))
        @settings(max_examples=k, database=None, deadline=None, derandomize=False, phases=[Phase.generate],
                  suppress_health_check=list(HealthCheck), report_multiple_bugs=False)
        @given(strategy)
        def go(value):
            body(value)

        go()
        done += k
        idx += 1
    return False
