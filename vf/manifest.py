"""Regenerates /verif/MANIFEST.json from the table below: python -m vf.manifest"""
import json
import os

VERIF = os.path.dirname(os.path.dirname(os.path.abspath(__file__)))

SETUP = "./setup.sh"

CHECKS = {
    "C10": dict(
        technique="model-based property testing: Hypothesis-generated and bounded-exhaustive rewrite sets against a reference scheduler model (must/may/must-not drop) and a splice oracle",
        text="Generated search over rewrite sets (targets x replacements x transactions x groups x yield orders) driven through "
             "processing.fix/chain; every scheduling decision is compared with a reference model written from the property text and the "
             "returned text with the splice of exactly the accepted rewrites (or the unchanged input when an accepted replacement does not parse).",
        note="Reference model and splice oracle are independent of pyrefact; text compared modulo whitespace/'pass'; ASCII sources only; one known finding (F-C10-01) is excluded by construction and counted.",
        design="5/C10",
    ),
}

CHECKS["C15"] = dict(
    technique="differential testing against Python's eval over a bounded-exhaustive expression space plus Hypothesis-random deeper expressions; execution-oracle differential on programs whose conditions are those expressions",
    text="literal_value(e) is compared with eval(e) (type, value, raising, observed effects through recording stand-ins) for every expression "
         "of depth<=1, sampled/complete depth 2 and random depth<=4; the consumers that fold conditions are run on programs built around the "
         "same expressions and judged by stdout/exception class.",
    note="eval() in the harness is the reference; frame/process dependent builtins (globals, id, hash, ...) and identity between non-singleton literals are outside the domain; one design-level finding (F-C15-01) is excluded by construction and counted.",
    design="5/C15",
)

CHECKS["C12"] = dict(
    technique="bounded-exhaustive and Hypothesis-generated (pattern, source) pairs against an independent reference matcher with backtracking list semantics (cross-checked by an re translation)",
    text="Every quantifier list up to the length bound over every element sequence up to its bound in three list contexts is matched by "
         "match_template and by the reference; patterns derived from corpus sources (wildcards, repeats, quantifiers, identifier wildcards, "
         "sequences, near misses, self patterns) are searched by finditer and the reported nodes compared with the reference occurrences; "
         "template objects (types, tuples, sets, typed wildcards) against documented semantics.",
    note="The reference matcher imports nothing from pyrefact; ASCII sources; quantifiers only in the list contexts the docs/tests establish; one name with two different quantifiers is rejected by compile_template and excluded.",
    design="5/C12",
)

CHECKS["C17"] = dict(
    technique="bounded-exhaustive truth-table differential: every generated formula / range comprehension / sum in every rewriting context is evaluated on all integer valuations of a box before and after each rule and after format_code",
    text="All 1- and 2-atom formulas (3-atom by stride / complete over x-atoms in thorough, plus Hypothesis-random larger ones) over comparisons with "
         "constants 0..3 are placed in 10 contexts (return, if-return, if-assign, branch swap, early continue, while, comprehension filter) and run "
         "through 11 rules and format_code; function tables over [-2,6]^2 must be identical. Range comprehensions and sums over ranges likewise.",
    note="Integer semantics, == comparison; sums are compared on non-empty ranges only (known finding F-C17-01) and float rounding of closed forms is bucketed separately (F-C17-02).",
    design="5/C17",
)

CHECKS["C01"] = dict(
    technique="differential execution (fuel-bounded, deterministic) of generated closed programs before/after format_code under drawn option combinations; culprit rule by pipeline bisection; delta-debugged replays",
    text="Rule-idiom families (31, with placements), compositions and Hypothesis grammar programs are formatted under drawn {safe, keep_imports, "
         "preserve subset, line length} combinations; the formatted program must terminate normally with identical stdout. Failures are attributed "
         "to the first rule call whose output changes behaviour and bucketed by (rule, failure class).",
    note="Programs are small (<= ~30 lines), closed and deterministic; behaviour is sampled, not proven; six design-level findings (F-C01-01..06) are excluded by construction; tool crashes are left to C04.",
    design="5/C01",
)

CHECKS["C02"] = dict(
    technique="differential execution of generated programs before/after each single rule (all ~86 rules x every program), rule registry by introspection of main.py",
    text="Every rule called by main.py (and the other public source->str callables) is applied alone to family and grammar programs; wherever it "
         "changes the text the result is executed against the original in the fuel-bounded oracle. Per-rule fire counts and uncovered rules are reported.",
    note="A rule that emits a qualified stdlib name is judged together with the add_missing_imports stage that always follows it; pandas rules are uncovered (no pandas offline); same design-level findings as C01, excluded by construction.",
    design="5/C02",
)

CHECKS["C04"] = dict(
    technique="generated-input robustness search (Hypothesis strategies over valid, mutated, indented, adversarial and corpus inputs x options) with an isolation oracle: no exception, no stdout/stdin use, bounded time with solitary confirmation, invalid input unchanged modulo whitespace",
    text="format_code is called on the syntax zoo with placement metamorphs, all rule families, grammar programs, adversarial constant conditions, "
         "the repository's own examples, vendored stdlib modules, indented fragments, token-mutated and arbitrary unicode inputs under drawn options; "
         "any BaseException, stdout write, stdin read, guard expiry (confirmed alone with a 4x limit) or change to an invalid input is a violation, "
         "bucketed by (exception type, innermost pyrefact function).",
    note="Termination is observed within a generous bound, not proven; inputs are <= ~300 lines; a time budget expiry of the search itself is 'inconclusive' (budget_exhausted), never a violation.",
    design="5/C04",
)

CHECKS["C09"] = dict(
    technique="iterated-application property test: generated and corpus inputs x options, the orbit x, f(x), ..., f^6(x) checked for a fixed point within 5 steps, stability of the fixed point and absence of cycles",
    text="For families, compositions, grammar programs, the zoo, the repository's examples and stdlib modules the sequence of repeated format_code "
         "applications is computed; it must reach a byte-identical fixed point within five applications, stay there, and never revisit an earlier text.",
    note="Caches cleared between applications; crashes/hangs are C04's; the histogram of applications needed (k) is reported.",
    design="5/C09",
)

CHECKS["C03"] = dict(
    technique="generated-input validity search (ast.parse round trip) over every entry point, plus fault injection: stubbed format_code in the file write guard and synthetic unparsable rewrites through processing.fix/chain",
    text="Valid modules (families, grammar, zoo metamorphs, literal sources, repository examples, stdlib modules, indented fragments) go through "
         "format_code, every rule, sub/subn with derived patterns and format_file; outputs must parse. format_file is additionally driven with stubbed "
         "format_code results (invalid / identical / different valid x valid / invalid original) to exercise the write guard, and the rollback net with "
         "synthetic rules yielding unparsable replacements and with single-statement removals through alter_code.",
    note="Validity = ast.parse (dedent for fragments; strict for files); crashes are C04's except inside the injected-fault sub-checks where a crash means the validity net failed; one known finding (F-C03-01) excluded by construction.",
    design="5/C03",
    category="fault_enumeration",
)

CHECKS["C16"] = dict(
    technique="bounded-exhaustive and Hypothesis-random control-flow shapes executed under all valuations of their unknown conditions (trace + outcome differential) before and after the dead-code rules",
    text="Statement shapes over constant and unknown conditions/iterables with an observable emit at every leaf and pointless-looking expression "
         "statements hiding calls are wrapped in def f(c0, c1, xs) and run under all 12 valuations; the emitted trace and the outcome must be identical "
         "after delete_unreachable_code, delete_pointless_statements, remove_dead_ifs, remove_redundant_else, swap_if_else, breakout_common_code_in_ifs, "
         "early_return, early_continue, move_before_loop and format_code.",
    note="Each table is computed in a forked child that is killed on expiry (a transformed program may swallow the fuel exception); expression statements that may raise without a call are not generated.",
    design="5/C16",
)

CHECKS["C20"] = dict(
    technique="metamorphic property test: programs annotated with opt-out comments at generated positions; skip_file output must equal the input byte-for-byte through three entry points, ignored lines must reappear verbatim, in order, with the same multiplicity",
    text="(a) skip_file markers (several spellings) are inserted at drawn lines of valid, invalid and tiny texts and pushed through format_code, "
         "format_file (bytes, mtime, return value) and main(['--from-stdin']); (b) rule-firing programs get 1-3 drawn physical lines annotated with "
         "an ignore comment (only where the comment leaves the AST unchanged) and are formatted under drawn options; failures are attributed to the first "
         "rule call after which the annotated lines are no longer intact.",
    note="One known finding (F-C20-01: the direct text-editing rules ignore the comments) is matched by culprit rule; it cannot be excluded by construction, so its hits are counted in the evidence.",
    design="5/C20",
)

CHECKS["C07"] = dict(
    technique="generated modules with adversarial top-level definitions formatted with safe=True; static reference model of the module surface (input strict, output liberal) and subset oracle",
    text="Surface modules (unused / unconventionally named / duplicated / static / shadowing definitions, every assignment target form, classes with "
         "all method kinds and attributes), families, grammar programs, repository examples and stdlib modules are formatted in safe mode; every "
         "module-level function, class, assigned variable, method and class attribute of the input must still be bound under the same name.",
    note="The surface model imports nothing from pyrefact; '_' is excluded as the tool's documented throw-away name; non-triviality is measured by formatting the same input with safe=False.",
    design="5/C07",
)

CHECKS["C13"] = dict(
    technique="generated (pattern, source) pairs with matches by construction over geometry-transformed sources; round-trip oracle span <-> node text computed independently from ast byte offsets, and API-coherence relations between finditer/findall/search/match/fullmatch/CLI",
    text="Patterns derived from nodes of repository examples and a geometry zoo are searched in sources transformed with multi-byte characters before "
         "the match, missing trailing newline, CRLF/CR, form feeds and unicode separators in literals/comments, indentation; every Match must lie in "
         "the source, be the exact slice of the complete node text, report the line/column of its start, and the re-like wrappers and the find CLI "
         "must agree with finditer.",
    note="Reference spans use Python's own line terminators and UTF-8 byte columns; constant parts of f-strings are outside the domain; the CLI is compared on \\n-terminated files.",
    design="5/C13",
)

CHECKS["C08"] = dict(
    technique="generated (library, client) module pairs with adversarial names; differential execution oracle (client run against the original and the rewritten library, in-process) plus a structural oracle over preserved definitions, through format_code(preserve=...), the files CLI with --preserve and --from-stdin",
    text="Libraries built from function / variable / class templates (instance, self-less, static, class methods, properties, class and instance "
         "attributes, subclasses, duplicate functions) with names in every convention are rewritten with the names a generated client uses "
         "preserved - via format_code(preserve=P), 'pyrefact lib.py --preserve client.py' and '--from-stdin --preserve'; every preserved "
         "definition must still be defined where it was and the client must print the same output.",
    note="Preserve sets come from the generator's metadata, not from pyrefact's own extraction; dynamic access and star imports of the library are not generated.",
    design="5/C08",
)

CHECKS["C18"] = dict(
    technique="generated package trees on disk x generated client modules; differential identity oracle: original and rewritten client are executed as modules in one process (shared sys.modules) and every imported object the client uses must be the identical object (id), per import rule and through format_code / format_file",
    text="Temp trees with uniquely named packages (plain modules, __init__ re-exporting by name / star / __all__ / alias, sub-packages, re-export "
         "chains, modules that import relatively, a second module binding the same names to other objects) and clients importing from them and "
         "from the standard library in every statement form and position (dotted, aliased, starred, stacked, duplicated, unused, inside "
         "functions, after definitions, under if / try, relative inside the package and its sub-package, after the client's own definition of "
         "the name, the optional-import idiom, missing imports) go through each import rule and the whole pipeline; RESULT - the list of used "
         "objects - must be identical object by object.",
    note="Clients whose import ORDER decides what a name means are a known finding (sorting / hoisting reorders them; the project's own tests require it) and are excluded from the order-changing stages, counted; clients with a failing import are outside the domain.",
    design="5/C18",
)

CHECKS["C19"] = dict(
    technique="generated programs with adversarial identifiers bound in every way; three oracles per (program, rule): differential execution, a reference binding graph (own scope analysis over the AST) whose partition of identifier occurrences into bindings must be invariant under a pure renaming, and validity of every new identifier",
    text="Programs assembled from binding-form blocks whose names are case/underscore variants of each other, builtin- and keyword-like, or "
         "shaped like generated names, go through the renaming rules (naming convention with random preserve sets, unused-name underscore, "
         "duplicate-function merge, static-method extraction, the name-inventing rules) and format_code; the result must behave the same, "
         "every reference must stay with its binding (no split), no two bindings may become one (no capture), and new names must be valid, "
         "non-keyword, non-builtin identifiers.",
    note="Attribute and keyword-argument consistency is decided by the execution oracle; moving a never-read store to '_' is not a split; behaviour changes caused by rules that do not rename are counted and left to C01/C02.",
    design="5/C19",
)

CHECKS["C14"] = dict(
    technique="differential property test against a tree-level reference substitution: generated (pattern, replacement, source, count) cases; a parallel walk of source tree and result tree must explain every difference as a reference match replaced by the template instantiated on trees with that match's bindings",
    text="Patterns (expression, statement, statement-sequence) derived from repository examples and directed sources are substituted with marker "
         "templates using each wildcard 0/1/n times, or with themselves; the result tree must be the source tree with reference matches replaced "
         "by the tree-level instantiation, the count bound and ignore comments must be respected, lines outside every match are carried over "
         "unchanged, absent patterns leave the text byte-identical, and the replace CLI agrees with sub().",
    note="Operator-precedence-sensitive replacements, elif matches and ';'-neighbour matches are known findings excluded by construction and counted; f-string internals are outside the domain.",
    design="5/C14",
)

CHECKS["C11"] = dict(
    technique="round-trip property test: ast.dump (positions and Constant.kind ignored, docstrings modulo whitespace) and the multiset of literal values must be invariant under each layout stage, over generated literal-heavy sources",
    text="Literal-heavy sources, odd indentation, import blocks with interleaved literals, the zoo and repository examples go through the pre-"
         "normalisation prefix, fix_line_lengths at four widths, fix_import_spacing, rmspace, the blank-line limiter, the whitespace diff minimiser on "
         "perturbed pairs, the original-quoting restoration on re-quoted pairs and format_code on rule-free inputs; tree and literal values must not change.",
    note="Four design-level findings (F-C11-01..04: text-level normalisation reaches into literals) are excluded by construction with named input predicates and counted; sort_imports changes statement order by design and is left to C18.",
    design="5/C11",
)

CHECKS["C05"] = dict(
    technique="history-based (stateful) property test: generated call histories executed in one process against a fresh-process oracle (grandchildren of a never-used zygote), plus a cache-faithfulness invariant checked after every step through outside-in spies on core.parse and core.compile_template",
    text="Histories of 3-10 format / rule / pattern / rolled-back-transaction calls over a small pool of cache-sensitive inputs run without clearing "
         "caches; each result must equal the result of the same call in a fresh process and of the same call earlier in the history; after every step "
         "every tree handed out by core.parse must dump like ast.parse(source) and every compiled template must equal a fresh compile.",
    note="fork() of a zygote that imported pyrefact but never called it stands for a fresh process; histories shrink by dropping steps; only objects handed out by the two spied caches are inspected directly.",
    design="5/C05",
)

CHECKS["C06"] = dict(
    technique="differential/metamorphic testing across processes: the same generated input formatted by persistent workers under different PYTHONHASHSEED values and heap layouts, and generated directory trees formatted sequentially vs in parallel under generated worker counts, file orders and injected per-file delays",
    text="Part A: conflict-rich families, grammar programs and repository examples are formatted twice (caches cleared, seeded heap perturbation) in each "
         "of k worker processes with different hash seeds; all outputs must be byte-identical. Part B: trees of modules are formatted by a sequential "
         "reference and by format_files with 2..16 workers, shuffled/duplicated file lists and delays that permute completion order; trees and change "
         "reports must be identical.",
    note="Schedules are sampled, not enumerated; layout variation is approximated by heap perturbation and distinct processes; one seeded mutant (change flags misattributed across folders) is a known gap of the quick tier.",
    design="5/C06",
)

NOT_YET = {
    "C18": "not claimed: the technique (generated package trees on disk + {name: id(object)} differential oracle, DESIGN.md section 5/C18) applies, "
           "but the check was not built in the time available; nothing is asserted about this property (import defects met on the way were found "
           "through C01/C02/C08 and are listed in DESIGN.md 12.4)",
    "C19": "not claimed: the technique (adversarial identifier generator + symbol-table / execution oracle, DESIGN.md section 5/C19) applies, but the "
           "check was not built in the time available; nothing is asserted about this property (renaming defects met on the way were found through "
           "C01/C02/C07/C08 and are listed in DESIGN.md 12.4)",
}


def main():
    props = [json.loads(l) for l in open(os.path.join(VERIF, "properties.jsonl"))]
    checks = []
    na = []
    for p in props:
        pid = p["id"]
        c = CHECKS.get(pid)
        if c is None:
            na.append({"property_id": pid, "reason": NOT_YET.get(pid, "check not built yet in this session (planned, see DESIGN.md section 5); not claimed until it is sensitive and quiet")})
            continue
        checks.append({
            "property_id": pid,
            "quick_cmd": f"./run {pid} --tier quick",
            "thorough_cmd": f"./run {pid} --tier thorough",
            "evidence_file": f"evidence/{pid}.json",
            "replay_cmd_template": f"./run {pid} --replay {{path}}",
            "engine": "vf (Hypothesis 6.168 + bounded-exhaustive enumeration, 16 shards)",
            "level_claimed": {"category": c.get("category", "exploration"), "text": c["text"], "design_ref": c["design"]},
            "level_note": c["note"],
            "technique": c["technique"],
        })
    manifest = {
        "version": 1,
        "setup_cmd": SETUP,
        "hooks": {
            "guard": "OLLELINDGREN_PYREFACT_VERIF",
            "enable": "no hooks: all observation points are reached from outside by module-attribute wrapping; the guard variable is read by nothing",
            "baseline_off_cmd": "cd /repo && /venv/bin/python -m pytest -ra -q -p no:cacheprovider --timeout=900 --continue-on-collection-errors",
            "source_commits": [],
            "add_only": True,
        },
        "engines": [
            {"name": "vf", "path": "vf/", "serves_properties": [c["property_id"] for c in checks],
             "kind_free_text": "property-based testing / fuzzing harness: Hypothesis strategies, bounded-exhaustive enumerations, reference models, execution oracle; ./run <ID>"},
        ],
        "checks": checks,
        "not_applicable": na,
        "notes": "Exit 0 = held (KNOWN-FINDING lines allowed), 1 = VIOLATION line printed, 2 = harness problem. known_findings.json lists recorded and fixed defects.",
    }
    with open(os.path.join(VERIF, "MANIFEST.json"), "w") as fh:
        json.dump(manifest, fh, indent=1)
    print(f"{len(checks)} checks, {len(na)} not claimed")


if __name__ == "__main__":
    main()
