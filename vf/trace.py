"""Rule registry by introspection of main.py, outside-in wrapping of rule functions, pipeline bisection."""
from __future__ import annotations

import ast
import contextlib
import functools
import os

from vf import env

_REG = None


def registry():
    """[(module_name, function_name)] for every rule called as module.function(source, ...) in main.py
    (in _multi_run_fixes, format_code and the processing.chain tuples), in first-call order."""
    global _REG
    if _REG is not None:
        return _REG
    env.setup()
    path = os.path.join(env.REPO, "pyrefact", "main.py")
    tree = ast.parse(open(path).read())
    found = []
    funcs = {n.name: n for n in tree.body if isinstance(n, ast.FunctionDef)}
    rule_modules = {"fixes", "abstractions", "object_oriented", "performance", "performance_numpy", "performance_pandas",
                    "symbolic_math", "tracing"}
    for fname in ("_multi_run_fixes", "format_code"):
        fn = funcs.get(fname)
        if fn is None:
            continue
        for node in ast.walk(fn):
            if isinstance(node, ast.Attribute) and isinstance(node.value, ast.Name) and node.value.id in rule_modules:
                key = (node.value.id, node.attr)
                m = env.mod(node.value.id)
                if callable(getattr(m, node.attr, None)) and key not in found:
                    found.append(key)
    _REG = found
    return found


def extra_rules():
    """Public (source[, preserve]) -> str callables of the rule modules that main.py does not call directly."""
    reg = set(registry())
    out = []
    for modname in ("fixes", "performance", "symbolic_math", "object_oriented", "abstractions", "tracing", "performance_numpy", "performance_pandas"):
        m = env.mod(modname)
        for name, obj in vars(m).items():
            if name.startswith("_") or not callable(obj) or (modname, name) in reg:
                continue
            if getattr(obj, "__module__", None) != m.__name__:
                continue
            inner = getattr(obj, "_fix_func", obj)
            code = getattr(inner, "__code__", None)
            if code is None or code.co_argcount < 1 or code.co_varnames[0] != "source":
                continue
            out.append((modname, name))
    return out


class Tracer:
    """Context manager: records (rule, before, after) for every rule call that changed the text."""

    def __init__(self):
        self.steps = []
        self.fired = {}
        self._saved = []

    def __enter__(self):
        for modname, fname in registry():
            m = env.mod(modname)
            orig = getattr(m, fname)
            if getattr(orig, "_vf_traced", False):
                continue

            def make(orig=orig, label=f"{modname}.{fname}"):
                @functools.wraps(orig)
                def traced(source, *a, **k):
                    out = orig(source, *a, **k)
                    if isinstance(out, str) and out != source:
                        self.steps.append((label, source, out))
                        self.fired[label] = self.fired.get(label, 0) + 1
                    return out

                traced._vf_traced = True
                if hasattr(orig, "_fix_func"):
                    traced._fix_func = orig._fix_func
                return traced

            setattr(m, fname, make())
            self._saved.append((m, fname, orig))
        return self

    def __exit__(self, *exc):
        for m, fname, orig in self._saved:
            setattr(m, fname, orig)
        self._saved = []
        return False


def traced_format(source, **kw):
    """format_code under a Tracer; returns (result, steps, fired). Rules called through processing.chain
    (the single-run fixes) are invoked via their _fix_func and are not individually visible."""
    with Tracer() as t:
        out = env.mod("main").format_code(source, **kw)
    return out, t.steps, t.fired


def culprit(steps, still_ok):
    """First step whose output breaks the oracle: still_ok(text) -> bool. Returns rule label or None."""
    for label, before, after in steps:
        try:
            good = still_ok(after)
        except Exception:
            good = False
        if not good:
            return label, before, after
    return None
