"""Shared engine for the program-level checks (C01, C02, C03, C04, C09...): run the tool on a program under
the SIGALRM guard, execute before/after in the fuel-bounded oracle, attribute failures to a culprit rule."""
from __future__ import annotations

import ast
import contextlib
import io
import warnings

from vf import env, execo, trace

GUARD_S = 120


def parses(src):
    with warnings.catch_warnings():
        warnings.simplefilter("ignore")
        try:
            ast.parse(src)
            return True
        except (SyntaxError, ValueError, RecursionError):
            return False


def ast_changed(a, b):
    with warnings.catch_warnings():
        warnings.simplefilter("ignore")
        try:
            return ast.dump(ast.parse(a)) != ast.dump(ast.parse(b))
        except (SyntaxError, ValueError):
            return True


def run_tool(fn, *args, **kwargs):
    """Returns ("ok", result) | ("crash", exc) | ("hang", None); stdout of the tool is captured in .stdout attr."""
    buf = io.StringIO()
    try:
        with env.alarm(GUARD_S), contextlib.redirect_stdout(buf), warnings.catch_warnings():
            warnings.simplefilter("ignore")
            out = fn(*args, **kwargs)
        return "ok", out, buf.getvalue()
    except env.CaseTimeout:
        return "hang", None, buf.getvalue()
    except BaseException as exc:
        if isinstance(exc, (KeyboardInterrupt,)):
            raise
        return "crash", exc, buf.getvalue()


def fmt_opts(opts):
    o = dict(opts or {})
    kw = {"safe": bool(o.get("safe", False)), "keep_imports": bool(o.get("keep_imports", False)),
          "preserve": frozenset(o.get("preserve", ())), "max_line_length": int(o.get("max_line_length", 100))}
    return kw


def pipeline_behaviour(case, extra_builtins=None):
    """C01 core. case = {"src", "opts"}. Returns (failures, info)."""
    src = case["src"]
    info = {"fired": {}, "status": ""}
    with warnings.catch_warnings():
        warnings.simplefilter("ignore")
        orig = execo.run(src, extra_builtins=extra_builtins)
    if orig["outcome"] != "ok":
        info["status"] = "skip:" + orig["outcome"]
        return [], info
    env.clear_caches()
    kw = fmt_opts(case.get("opts"))
    with trace.Tracer() as t:
        status, out, _ = run_tool(env.mod("main").format_code, src, **kw)
    info["fired"] = dict(t.fired)
    if status != "ok":
        info["status"] = "tool-" + status  # judged by C04, counted here
        return [], info
    if not isinstance(out, str):
        return [{"bucket": "format_code:not-a-string", "case": case, "detail": repr(out)[:200]}], info
    info["changed"] = out != src
    info["ast_changed"] = ast_changed(src, out)
    with warnings.catch_warnings():
        warnings.simplefilter("ignore")
        after = execo.run(out, 50 * orig["used"] + 10_000, extra_builtins=extra_builtins)
    if execo.same(orig, after):
        info["status"] = "same"
        return [], info
    klass = failure_class(orig, after)

    def ok(text):
        with warnings.catch_warnings():
            warnings.simplefilter("ignore")
            return execo.same(orig, execo.run(text, 50 * orig["used"] + 10_000, extra_builtins=extra_builtins))

    cul = trace.culprit(t.steps, ok)
    if cul is None:
        label, before, aft = "untraced-stage", src, out
    else:
        label, before, aft = cul
    info["status"] = "differs"
    detail = (f"culprit {label}: {klass}\n--- original stdout {orig['stdout'][:300]!r}\n--- new ({after['outcome']}) stdout {after['stdout'][:300]!r} {after.get('error', '')}\n"
              f"--- text before the culprit step\n{before}\n--- text after it\n{aft}")
    return [{"bucket": f"{label.split('.')[-1]}:{klass}", "case": case, "detail": detail}], info


def failure_class(orig, after):
    if after["outcome"] == "compile-error":
        return "does-not-compile"
    if after["outcome"] == "fuel":
        return "no-termination"
    if after["outcome"] != "ok":
        return "raises-" + after["outcome"]
    return "stdout-differs"


def rule_behaviour(case, extra_builtins=None):
    """C02 core. case = {"src", "rule": [mod, fn], "preserve": [...]}. Returns (failures, info)."""
    src = case["src"]
    modname, fname = case["rule"]
    info = {"status": ""}
    fn = getattr(env.mod(modname), fname)
    env.clear_caches()
    kwargs = {}
    inner = getattr(fn, "_fix_func", fn)
    code = getattr(inner, "__code__", None)
    if code is not None and "preserve" in code.co_varnames[: code.co_argcount + code.co_kwonlyargcount]:
        kwargs["preserve"] = frozenset(case.get("preserve", ()))
    if fname == "overused_constant":
        kwargs["root_is_static"] = True
    status, out, _ = run_tool(fn, src, **kwargs)
    if status != "ok":
        info["status"] = "tool-" + status
        if status == "crash":
            info["crash"] = env.exc_bucket(out)
        return [], info
    if out == src:
        info["status"] = "unchanged"
        return [], info
    with warnings.catch_warnings():
        warnings.simplefilter("ignore")
        orig = execo.run(src, extra_builtins=extra_builtins)
        if orig["outcome"] != "ok":
            info["status"] = "skip:" + orig["outcome"]
            return [], info
        after = execo.run(out, 50 * orig["used"] + 10_000, extra_builtins=extra_builtins)
    info["ast_changed"] = ast_changed(src, out)
    if execo.same(orig, after):
        info["status"] = "same"
        return [], info
    if after["outcome"] == "NameError" and fname != "add_missing_imports":
        # rules emit qualified names (collections.defaultdict, heapq.nsmallest, ...) and leave the import to the
        # add_missing_imports stage that format_code always runs afterwards: judge the rule together with that stage
        st2, out2, _ = run_tool(env.mod("fixes").add_missing_imports, out)
        if st2 == "ok" and isinstance(out2, str):
            with warnings.catch_warnings():
                warnings.simplefilter("ignore")
                after2 = execo.run(out2, 50 * orig["used"] + 10_000, extra_builtins=extra_builtins)
            if execo.same(orig, after2):
                info["status"] = "same"
                info["needed_import_stage"] = True
                return [], info
            if after2["outcome"] != "NameError":
                after, out = after2, out2  # judge the composed result
    klass = failure_class(orig, after)
    info["status"] = "differs"
    detail = (f"{fname}: {klass}\n--- original stdout {orig['stdout'][:300]!r}\n--- new ({after['outcome']}) stdout {after['stdout'][:300]!r} {after.get('error', '')}\n"
              f"--- before\n{src}\n--- after\n{out}")
    return [{"bucket": f"{fname}:{klass}", "case": case, "detail": detail}], info


# ------------------------------------------------------------------------------------------- shrinking

def shrink_program(case, still_fails, budget=250, key="src"):
    """Greedy line/statement delta debugging on case[key]; still_fails(case) -> bool."""
    best = dict(case)
    calls = [0]

    def test(src):
        if calls[0] >= budget or not parses(src):
            return False
        calls[0] += 1
        cand = dict(best)
        cand[key] = src
        try:
            return bool(still_fails(cand))
        except BaseException:
            return False

    # 1. drop whole top-level statements, then nested statements, from the end
    changed = True
    while changed and calls[0] < budget:
        changed = False
        try:
            tree = ast.parse(best[key])
        except SyntaxError:
            break
        lines = best[key].splitlines(keepends=True)
        stmts = [n for n in ast.walk(tree) if isinstance(n, ast.stmt)]
        stmts.sort(key=lambda n: (n.end_lineno - n.lineno), reverse=True)
        for node in stmts:
            start = node.lineno - 1
            if getattr(node, "decorator_list", None):
                start = min(d.lineno for d in node.decorator_list) - 1
            cand_lines = lines[:start] + lines[node.end_lineno:]
            cand = "".join(cand_lines)
            if cand.strip() and test(cand):
                best[key] = cand
                changed = True
                break
            # replace by pass (keeps blocks valid)
            indent = len(lines[start]) - len(lines[start].lstrip())
            cand = "".join(lines[:start] + [" " * indent + "pass\n"] + lines[node.end_lineno:])
            if cand != best[key] and not isinstance(node, ast.Pass) and test(cand):
                best[key] = cand
                changed = True
                break
    return best


def fmt_opts_json(opts):
    o = fmt_opts(opts)
    return {"safe": o["safe"], "keep_imports": o["keep_imports"], "preserve": sorted(o["preserve"]), "max_line_length": o["max_line_length"]}
