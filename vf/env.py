"""Environment: locate the repository under test, import pyrefact from it, isolate cases."""
from __future__ import annotations

import hashlib
import importlib
import json
import logging
import os
import signal
import sys

VERIF = os.path.dirname(os.path.dirname(os.path.abspath(__file__)))
REPO = os.path.abspath(os.environ.get("VF_REPO", "/repo"))
DEPS = os.path.join(VERIF, ".deps")


class HarnessError(Exception):
    """A problem of the machinery itself (exit 2, never a VIOLATION)."""


class CaseTimeout(BaseException):
    """Raised by the SIGALRM guard; BaseException so that the tool cannot swallow it."""


_MODS = {}


def seed_value() -> int:
    raw = os.environ.get("VERIF_SEED", "1")
    try:
        value = int(raw)
    except ValueError:
        value = int(hashlib.sha256(raw.encode()).hexdigest()[:8], 16)
    return value if value != 0 else 0x5EED


def subseed(*parts) -> int:
    h = hashlib.sha256(repr(parts).encode()).hexdigest()
    return int(h[:12], 16)


def setup():
    """Import pyrefact from REPO (the current working tree) and silence its logging."""
    if "pyrefact" in _MODS:
        return _MODS
    for p in (DEPS, REPO):
        if p not in sys.path and os.path.isdir(p):
            sys.path.insert(0, p)
    sys.dont_write_bytecode = True
    try:
        pkg = importlib.import_module("pyrefact")
    except Exception as exc:  # pragma: no cover
        raise HarnessError(f"cannot import pyrefact from {REPO}: {exc!r}")
    where = os.path.abspath(pkg.__file__)
    if not where.startswith(REPO + os.sep):
        raise HarnessError(f"pyrefact imported from {where}, expected under {REPO}")
    _MODS["pyrefact"] = pkg
    for name in (
        "main core processing fixes pattern_matching parsing tracing abstractions symbolic_math "
        "performance performance_numpy performance_pandas object_oriented formatting style constants logs"
    ).split():
        _MODS[name] = importlib.import_module("pyrefact." + name)
    lg = logging.getLogger("pyrefact")
    _MODS["logs"]._get_logger()  # create handler now, then disable
    lg.disabled = True
    return _MODS


def mod(name):
    return setup()[name]


_CACHED = None


def cached_functions():
    global _CACHED
    if _CACHED is None:
        setup()
        found = []
        for mname, m in list(sys.modules.items()):
            if not mname.startswith("pyrefact") or m is None:
                continue
            for attr, obj in list(vars(m).items()):
                if hasattr(obj, "cache_clear") and callable(obj.cache_clear):
                    if attr in ("parse_line_length_from_pyproject_toml", "_get_logger"):
                        continue
                    found.append(obj)
                inner = getattr(obj, "__wrapped__", None)
        _CACHED = list({id(f): f for f in found}.values())
    return _CACHED


def clear_caches():
    """Make a case a function of its input alone."""
    for f in cached_functions():
        f.cache_clear()


class alarm:
    """SIGALRM guard around a case; raises CaseTimeout in the worker."""

    def __init__(self, seconds: float):
        self.seconds = seconds

    def _fire(self, signum, frame):
        raise CaseTimeout(f"case exceeded {self.seconds}s")

    def __enter__(self):
        self.old = signal.signal(signal.SIGALRM, self._fire)
        signal.setitimer(signal.ITIMER_REAL, self.seconds)
        return self

    def __exit__(self, *exc):
        signal.setitimer(signal.ITIMER_REAL, 0)
        signal.signal(signal.SIGALRM, self.old)
        return False


def h(obj) -> str:
    """Short stable hash of a JSON-able case."""
    return hashlib.sha256(json.dumps(obj, sort_keys=True, default=repr).encode()).hexdigest()[:16]


def exc_bucket(exc: BaseException) -> str:
    """(exception type, innermost pyrefact frame function)."""
    import traceback

    tb = traceback.extract_tb(exc.__traceback__)
    where = "?"
    for fr in tb:
        if os.sep + "pyrefact" + os.sep in fr.filename:
            where = f"{os.path.basename(fr.filename)[:-3]}.{fr.name}"
    return f"{type(exc).__name__}@{where}"
