"""Constant-expression generators for C15 (and the adversarial conditions of C04)."""
from __future__ import annotations

import itertools

from hypothesis import strategies as st

ATOMS = [
    "0", "1", "2", "3", "-1", "True", "False", "None", "''", "'a'", "'ab'", "1.5", "0.0",
    "[]", "[1]", "[1, 2]", "()", "(1,)", "{}", "{1: 2}", "{1}", "b''", "b'a'",
]
SMALL_ATOMS = ["0", "1", "2", "True", "False", "None", "''", "'a'", "[]", "[1]", "1.5"]
SINGLETONS = {"None", "True", "False"}
UNARY = ["not ", "-", "+", "~"]
BINOPS = ["+", "-", "*", "/", "//", "%", "**", "<<", ">>", "|", "^", "&", "@"]
CMPOPS = ["==", "!=", "<", "<=", ">", ">=", "in", "not in", "is", "is not"]
PURE_CALLS = [
    "len({a})", "abs({a})", "bool({a})", "int({a})", "float({a})", "str({a})", "repr({a})", "list({a})",
    "tuple({a})", "set({a})", "dict({a})", "sorted({a})", "reversed({a})", "sum({a})", "min({a})", "max({a})",
    "any({a})", "all({a})", "range({a})", "enumerate({a})", "zip({a}, {b})", "round({a})", "divmod({a}, {b})",
    "pow({a}, {b})", "chr({a})", "ord({a})", "bin({a})", "hex({a})", "bytes({a})", "frozenset({a})", "iter({a})",
    "type({a})", "callable({a})", "ascii({a})", "format({a})", "min({a}, {b})", "max({a}, {b})", "range({a}, {b})",
    "filter(None, {a})", "list(range({a}))", "len(range({a}))", "isinstance({a}, {b})", "next(iter({a}))",
    "int()", "str()", "list()", "dict()", "set()", "tuple()", "bool()", "float()",
]
KEYWORD_CALLS = [
    "sorted([2, 1, 3], reverse=True)", "sorted([1, 2], reverse={a})", "int('10', base=2)", "int('11', base={a})",
    "dict(a=1)", "dict(a={a})", "max([], default=0)", "max([], default={a})", "min([], default={a})",
    "sum([1], start=5)", "sum([], start={a})", "round(1.26, ndigits=1)", "str(b'a', encoding='utf8')",
    "enumerate([1], start=1)", "list(enumerate([5], start={a}))", "sorted(['b', 'A'], key=None, reverse=True)",
    "bool(dict(a=1))", "len(dict(a=1, b=2))", "max([1, 2], key=None)", "pow(2, 3, mod=5)", "int(x='7')" ,
    "print({a}, end='')", "float(x=1)", "bytes('a', encoding='utf8')", "'{x}'.format(x=1)", "''.join(iterable=[])",
]
EFFECT_CALLS = [
    "print()", "print({a})", "print({a}, {b})", "input()", "input({a})", "exit()", "exit({a})", "quit()",
    "open('vf_c15_probe.tmp', 'w')", "exec('vf_probe = 1')", "eval('1')", "eval({a})", "breakpoint()",
    "__import__('os')", "help()", "license()", "copyright()", "credits()", "compile('1', 'f', 'eval')",
    "setattr({a}, 'x', 1)", "delattr({a}, 'x')", "bool(print({a}))", "len([print({a})])", "not print()",
]
METHOD_CALLS = [
    "'a'.upper()", "''.join(['a', 'b'])", "'a,b'.split(',')", "'abc'.index('z')", "'a'.join(1)", "(1).bit_length()",
    "'{{}}'.format({a})", "'a'.startswith({a})", "b'a'.decode()", "1.5.is_integer()", "'a'.nosuch()",
    "'abc'.replace('a', 'b')", "'a'.encode()", "' a '.strip()", "'a'.__len__()", "'x'.format_map({{}})",
    "'{{0.real}}'.format({a})", "'abc'.find({a})", "'a'.center({a})", "''.join({a})", "'ab'.count('a')",
    "(2).__add__({a})", "'%s' % {a}", "'%d' % {a}", "'a'.zfill({a})", "None.nosuch()", "(1.5).hex()",
    "True.bit_length()", "'a'.isalpha()", "'abc'.removeprefix('a')", "b'ab'.hex()", "'a b'.title()",
]
EFFECT_NAMES = [
    "print", "input", "exit", "quit", "open", "exec", "eval", "breakpoint", "__import__", "help", "license",
    "copyright", "credits", "compile", "setattr", "delattr",
]


def identity_ok(op, left, right):
    """`is` between two non-singleton literals is implementation-defined: outside the claim."""
    if op not in ("is", "is not"):
        return True
    return left in SINGLETONS or right in SINGLETONS


def p(e):
    return f"({e})"


def depth1(atoms=ATOMS):
    """All depth-1 expressions over the atoms (finite, seed independent)."""
    for a in atoms:
        yield a
    for u, a in itertools.product(UNARY, atoms):
        yield f"{u}{p(a)}"
    for o, a, b in itertools.product(BINOPS, atoms, atoms):
        if o in ("**", "<<", "*") and not _cheap(o, a, b):
            continue
        yield f"{p(a)} {o} {p(b)}"
    for o, a, b in itertools.product(["and", "or"], atoms, atoms):
        yield f"{p(a)} {o} {p(b)}"
    for o, a, b in itertools.product(CMPOPS, atoms, atoms):
        if identity_ok(o, a, b):
            yield f"{p(a)} {o} {p(b)}"
    for tmpl in PURE_CALLS + KEYWORD_CALLS + EFFECT_CALLS + METHOD_CALLS:
        n = ("{a}" in tmpl) + ("{b}" in tmpl)
        if n == 0:
            yield tmpl.replace("{{", "{").replace("}}", "}")
        elif n == 1:
            for a in atoms:
                yield tmpl.format(a=a)
        else:
            for a, b in itertools.product(SMALL_ATOMS, SMALL_ATOMS):
                yield tmpl.format(a=a, b=b)


def _cheap(op, a, b):
    return True  # atoms are tiny; kept as the single place to cap expensive operators


def depth1_small():
    yield from depth1(SMALL_ATOMS)


def depth2_from(d1):
    """Depth-2 expressions: every operator applied to (depth-1, atom) pairs in both orders, plus
    3-operand boolean operators, chained comparisons and conditional expressions."""
    for e in d1:
        for u in UNARY:
            yield f"{u}{p(e)}"
        for a in SMALL_ATOMS:
            for o in BINOPS:
                yield f"{p(e)} {o} {p(a)}"
                yield f"{p(a)} {o} {p(e)}"
            for o in ("and", "or"):
                yield f"{p(e)} {o} {p(a)}"
                yield f"{p(a)} {o} {p(e)}"
            for o in CMPOPS:
                if o in ("is", "is not") and a not in SINGLETONS:
                    continue
                yield f"{p(e)} {o} {p(a)}"
                yield f"{p(a)} {o} {p(e)}"
            yield f"{p(a)} if {p(e)} else 7"
            yield f"{p(e)} if {p(a)} else 7"
        yield f"len([{e}])"
        yield f"bool({e})"
        yield f"[{e}]"
        yield f"({e},)"
        yield f"{{1: {e}}}"


def chained():
    for (o1, o2), a, b, c in itertools.product(
        itertools.product(["==", "!=", "<", "<=", ">", ">=", "in", "not in"], repeat=2), SMALL_ATOMS, SMALL_ATOMS, SMALL_ATOMS
    ):
        yield f"{p(a)} {o1} {p(b)} {o2} {p(c)}"
    for o1, o2, a, b, c in itertools.product(["and", "or"], ["and", "or"], SMALL_ATOMS, SMALL_ATOMS, SMALL_ATOMS):
        yield f"{p(a)} {o1} {p(b)} {o2} {p(c)}"
    for a, b, c in itertools.product(SMALL_ATOMS, SMALL_ATOMS, SMALL_ATOMS):
        yield f"{p(a)} if {p(b)} else {p(c)}"


@st.composite
def deep(draw, depth=3):
    """Random deeper expression (Hypothesis)."""
    if depth == 0 or draw(st.integers(0, 5)) == 0:
        return draw(st.sampled_from(ATOMS))
    kind = draw(st.sampled_from(["un", "bin", "bin", "bool", "cmp", "cmp", "chain", "ifexp", "call", "method", "kw", "effect", "disp"]))
    sub = lambda: draw(deep(depth=depth - 1))
    if kind == "un":
        return f"{draw(st.sampled_from(UNARY))}{p(sub())}"
    if kind == "bin":
        o = draw(st.sampled_from(BINOPS))
        if o in ("**", "<<"):
            return f"{p(sub())} {o} {p(draw(st.sampled_from(['0', '1', '2', '-1', 'True'])))}"
        if o == "*":
            return f"{p(sub())} {o} {p(draw(st.sampled_from(SMALL_ATOMS)))}"
        return f"{p(sub())} {o} {p(sub())}"
    if kind == "bool":
        o = draw(st.sampled_from(["and", "or"]))
        return f" {o} ".join(p(sub()) for _ in range(draw(st.integers(2, 3))))
    if kind == "cmp":
        o = draw(st.sampled_from(CMPOPS))
        if o in ("is", "is not"):
            return f"{p(sub())} {o} {draw(st.sampled_from(sorted(SINGLETONS)))}"
        return f"{p(sub())} {o} {p(sub())}"
    if kind == "chain":
        ops = [draw(st.sampled_from(CMPOPS[:8])) for _ in range(draw(st.integers(2, 3)))]
        out = p(sub())
        for o in ops:
            out += f" {o} {p(sub())}"
        return out
    if kind == "ifexp":
        return f"{p(sub())} if {p(sub())} else {p(sub())}"
    if kind == "disp":
        k = draw(st.sampled_from(["[{}]", "({},)", "[{}, {}]", "{{1: {}}}", "{{{}}}"]))
        return k.format(*[sub() for _ in range(k.count("{}"))])
    pool = {"call": PURE_CALLS, "method": METHOD_CALLS, "kw": KEYWORD_CALLS, "effect": EFFECT_CALLS}[kind]
    tmpl = draw(st.sampled_from(pool))
    return tmpl.replace("{{", "\0").replace("}}", "\1").replace("{a}", p(sub()) if "{a}" in tmpl else "").replace(
        "{b}", p(sub()) if "{b}" in tmpl else "").replace("\0", "{").replace("\1", "}")
