"""Typed, closed, deterministic, terminating program grammar (Hypothesis composite).

Every read is of a definitely-bound name (construction, not rejection); the only observable is print() of
builtin-typed values; sets are printed through sorted(); loops are bounded by construction.
Feature switches (FEATURES) let a check exclude a shape that triggers a recorded finding; exclusions are counted.
"""
from __future__ import annotations

from hypothesis import strategies as st

INT, BOOL, STR, LIST, DICT, SET = "int", "bool", "str", "list", "dict", "set"
TYPES = [INT, INT, INT, BOOL, STR, LIST, LIST, DICT, SET]

DEFAULT_FEATURES = {
    "classes": True, "try": True, "while": True, "lambda": True, "nested_def": True, "imports": True,
    "unused": True, "fstring": True, "augassign": True, "tuple_unpack": True, "loop_else": True,
    "upper_names": True, "comprehensions": True, "dict_loops": True, "globals_in_funcs": True,
    "zip_unequal": False,  # F-C01-05 (unused_zip_args) is excluded by construction
}


class G:
    def __init__(self, draw, features=None, max_depth=2):
        self.draw = draw
        self.f = dict(DEFAULT_FEATURES)
        if features:
            self.f.update(features)
        self.counter = 0
        self.funcs = []  # (name, nargs, ret_type)
        self.classes = []  # (name, methods[(name, nargs)])
        self.max_depth = max_depth
        self.imports = set()
        self.no_calls = 0  # >0 while generating and/or operands: no user-function calls there (F-C15-01 / F-C01-06)
        self.ro = set()  # names that must not be rebound in the current scope (globals read inside a function)

    # ---- helpers
    def d(self, strategy):
        return self.draw(strategy)

    def pick(self, seq):
        return self.draw(st.sampled_from(list(seq)))

    def chance(self, n):
        return self.draw(st.integers(0, n - 1)) == 0

    def fresh(self, prefix):
        self.counter += 1
        style = self.draw(st.integers(0, 5)) if self.f["upper_names"] else 1
        if style == 0 and prefix in ("v", "n", "s"):
            return f"{prefix}Val{self.counter}"  # camelCase -> convention renaming
        return f"{prefix}{self.counter}"

    def vars_of(self, env, typ):
        return [n for n, t in env.items() if t == typ]

    # ---- expressions
    def expr(self, env, typ, depth=0):
        leafy = depth >= self.max_depth or self.chance(3)
        names = self.vars_of(env, typ)
        if typ == INT:
            if leafy:
                if names and not self.chance(3):
                    return self.pick(names)
                return str(self.d(st.integers(-3, 12)))
            k = self.d(st.integers(0, 13))
            a = lambda: self.expr(env, INT, depth + 1)
            if k == 0:
                return f"{a()} + {a()}"
            if k == 1:
                return f"({a()}) - ({a()})"
            if k == 2:
                return f"({a()}) * {self.d(st.integers(-2, 3))}"
            if k == 3:
                return f"({a()}) // {self.d(st.integers(1, 4))}"
            if k == 4:
                return f"({a()}) % {self.d(st.integers(1, 5))}"
            if k == 5:
                return f"len({self.expr(env, self.pick([LIST, STR, DICT, SET]), depth + 1)})"
            if k == 6:
                return f"sum({self.expr(env, LIST, depth + 1)})"
            if k == 7:
                return f"max({self.expr(env, LIST, depth + 1)} + [{a()}])"
            if k == 8:
                return f"abs({a()})"
            if k == 9:
                return f"({a()} if {self.expr(env, BOOL, depth + 1)} else {a()})"
            if k == 10 and self.funcs and not self.no_calls:
                fn, nargs, ret = self.pick(self.funcs)
                if ret == INT:
                    return f"{fn}({', '.join(a() for _ in range(nargs))})"
            if k == 11:
                return f"({self.expr(env, DICT, depth + 1)}).get({a()}, {a()})"
            if k == 12:
                return f"min({a()}, {a()})"
            if k == 13:
                return f"int({self.expr(env, BOOL, depth + 1)})"
            return f"{a()} + 1"
        if typ == BOOL:
            if leafy:
                if names and not self.chance(3):
                    return self.pick(names)
                return self.pick(["True", "False"])
            k = self.d(st.integers(0, 8))
            i = lambda: self.expr(env, INT, depth + 1)
            b = lambda: self.expr(env, BOOL, depth + 1)
            if k == 0:
                return f"{i()} {self.pick(['<', '<=', '>', '>=', '==', '!='])} {i()}"
            if k == 1:
                return f"not ({b()})"
            if k in (2, 3):
                # simplify_boolean_expressions folds and/or with a constant operand to True/False and drops the other
                # operands (recorded finding): calls with effects are kept out of and/or operands by construction
                self.no_calls += 1
                try:
                    return f"({b()}) {'and' if k == 2 else 'or'} ({b()})"
                finally:
                    self.no_calls -= 1
            if k == 4:
                return f"{i()} in {self.expr(env, self.pick([LIST, SET, DICT]), depth + 1)}"
            if k == 5:
                return f"bool({self.expr(env, self.pick([LIST, STR, INT]), depth + 1)})"
            if k == 6:
                return f"{i()} not in {self.expr(env, LIST, depth + 1)}"
            if k == 7:
                return f"{self.expr(env, STR, depth + 1)} == {self.expr(env, STR, depth + 1)}"
            return f"{i()} % 2 == 0"
        if typ == STR:
            if leafy:
                if names and not self.chance(3):
                    return self.pick(names)
                return repr(self.pick(["", "a", "ab", "x y", "k1", "Zed", "some longer text value"]))
            k = self.d(st.integers(0, 6))
            s = lambda: self.expr(env, STR, depth + 1)
            if k == 0:
                return f"{s()} + {s()}"
            if k == 1:
                return f"str({self.expr(env, INT, depth + 1)})"
            if k == 2:
                return f"({s()}) * {self.d(st.integers(0, 2))}"
            if k == 3:
                return f"'-'.join(str(e) for e in {self.expr(env, LIST, depth + 1)})"
            if k == 4 and self.f["fstring"]:
                return "f\"{" + self.expr(env, INT, depth + 1) + "}:{" + s() + "}\""
            if k == 5:
                return f"({s()}).upper()"
            return f"({s()}).strip()"
        if typ == LIST:
            if leafy:
                if names and not self.chance(3):
                    return self.pick(names)
                n = self.d(st.integers(0, 4))
                return "[" + ", ".join(str(self.d(st.integers(-2, 9))) for _ in range(n)) + "]"
            k = self.d(st.integers(0, 11))
            L = lambda: self.expr(env, LIST, depth + 1)
            i = lambda: self.expr(env, INT, depth + 1)
            v = self.fresh("e")
            env2 = dict(env)
            env2[v] = INT
            if k == 0:
                return f"[{i()}, {i()}]"
            if k == 1 and self.f["comprehensions"]:
                return f"[{self.expr(env2, INT, depth + 1)} for {v} in {L()}]"
            if k == 2 and self.f["comprehensions"]:
                return f"[{self.expr(env2, INT, depth + 1)} for {v} in {L()} if {self.expr(env2, BOOL, depth + 1)}]"
            if k == 3:
                return f"list(range({self.d(st.integers(0, 5))}))"
            if k == 4:
                return f"{L()} + {L()}"
            if k == 5:
                return f"sorted({L()})"
            if k == 6:
                return f"({L()})[::-1]"
            if k == 7 and self.f["lambda"]:
                return f"list(map(lambda {v}: {self.expr(env2, INT, depth + 1)}, {L()}))"
            if k == 8 and self.f["lambda"]:
                return f"list(filter(lambda {v}: {self.expr(env2, BOOL, depth + 1)}, {L()}))"
            if k == 9:
                return f"sorted({self.expr(env, SET, depth + 1)})"
            if k == 10:
                return f"list(({self.expr(env, DICT, depth + 1)}).keys())"
            if k == 11:
                return f"({L()})[:{self.d(st.integers(0, 3))}]"
            return f"list({L()})"
        if typ == SET:
            if leafy:
                if names and not self.chance(3):
                    return self.pick(names)
                n = self.d(st.integers(1, 3))
                return "{" + ", ".join(str(self.d(st.integers(0, 6))) for _ in range(n)) + "}"
            k = self.d(st.integers(0, 3))
            v = self.fresh("e")
            env2 = dict(env)
            env2[v] = INT
            if k == 0:
                return f"set({self.expr(env, LIST, depth + 1)})"
            if k == 1 and self.f["comprehensions"]:
                return f"{{{self.expr(env2, INT, depth + 1)} for {v} in {self.expr(env, LIST, depth + 1)}}}"
            if k == 2:
                return f"{self.expr(env, SET, depth + 1)} | {self.expr(env, SET, depth + 1)}"
            return f"{{{self.expr(env, INT, depth + 1)}}}"
        if typ == DICT:
            if leafy:
                if names and not self.chance(3):
                    return self.pick(names)
                n = self.d(st.integers(0, 3))
                return "{" + ", ".join(f"{k}: {self.d(st.integers(-1, 7))}" for k in range(n)) + "}"
            k = self.d(st.integers(0, 2))
            v = self.fresh("e")
            env2 = dict(env)
            env2[v] = INT
            if k == 0 and self.f["comprehensions"]:
                return f"{{{v}: {self.expr(env2, INT, depth + 1)} for {v} in {self.expr(env, LIST, depth + 1)}}}"
            if k == 1:
                return f"dict(zip({self.expr(env, LIST, depth + 1)}, {self.expr(env, LIST, depth + 1)}))"
            return f"{{{self.expr(env, INT, depth + 1)}: {self.expr(env, INT, depth + 1)}}}"
        raise ValueError(typ)

    def show(self, env, typ=None):
        typ = typ or self.pick(TYPES)
        e = self.expr(env, typ)
        if typ == SET:
            return f"print(sorted({e}))"
        return f"print({e})"

    # ---- statements
    def block(self, env, ind, n, depth, in_loop=False, in_func=None):
        """Returns (lines, env_after). env_after only contains definitely-bound names."""
        lines = []
        env = dict(env)
        for _ in range(n):
            ls, env = self.stmt(env, ind, depth, in_loop, in_func)
            lines.extend(ls)
        if not lines:
            lines = [ind + "pass"]
        return lines, env

    def stmt(self, env, ind, depth, in_loop, in_func):
        k = self.d(st.integers(0, 19))
        deep = depth >= 2
        if k <= 3:  # assignment
            typ = self.pick(TYPES)
            name = self.fresh({INT: "n", BOOL: "b", STR: "s", LIST: "l", DICT: "d", SET: "t"}[typ])
            rebindable = [n for n in self.vars_of(env, typ) if n not in self.ro]
            if self.chance(3) and rebindable:
                name = self.pick(rebindable)  # re-assignment
            line = f"{name} = {self.expr(env, typ)}"
            if self.chance(8):
                line = f"{name}: {dict(int='int', bool='bool', str='str', list='list', dict='dict', set='set')[typ]} = {self.expr(env, typ)}"
            env = dict(env)
            env[name] = typ
            return [ind + line], env
        if k == 4:
            return [ind + self.show(env)], env
        if k == 5 and self.f["augassign"]:
            ints = [n for n in self.vars_of(env, INT) if n not in self.ro]
            lists = self.vars_of(env, LIST)
            if ints and not self.chance(3):
                return [ind + f"{self.pick(ints)} {self.pick(['+=', '-=', '*='])} {self.expr(env, INT)}"], env
            if lists:
                return [ind + f"{self.pick(lists)}.append({self.expr(env, INT)})"], env
            return [ind + self.show(env)], env
        if k in (6, 7) and not deep:  # if / elif / else
            cond = self.expr(env, BOOL)
            body, e1 = self.block(env, ind + "    ", self.d(st.integers(1, 3)), depth + 1, in_loop, in_func)
            lines = [ind + f"if {cond}:"] + body
            envs = [e1]
            if self.chance(3):
                b2, e2 = self.block(env, ind + "    ", self.d(st.integers(1, 2)), depth + 1, in_loop, in_func)
                lines += [ind + f"elif {self.expr(env, BOOL)}:"] + b2
                envs.append(e2)
            if self.chance(2):
                b3, e3 = self.block(env, ind + "    ", self.d(st.integers(1, 3)), depth + 1, in_loop, in_func)
                lines += [ind + "else:"] + b3
                envs.append(e3)
                out = dict(env)
                common = set.intersection(*(set(e) for e in envs))
                for nme in common:
                    ts = {e[nme] for e in envs}
                    if len(ts) == 1:
                        out[nme] = ts.pop()
                return lines, out
            return lines, env
        if k in (8, 9) and not deep:  # for loop
            v = self.fresh("i")
            kind = self.d(st.integers(0, 5))
            env2 = dict(env)
            if kind == 0:
                head = f"for {v} in range({self.d(st.integers(0, 4))}):"
                env2[v] = INT
            elif kind == 1:
                head = f"for {v} in {self.expr(env, LIST)}:"
                env2[v] = INT
            elif kind == 2:
                w = self.fresh("j")
                head = f"for {v}, {w} in enumerate({self.expr(env, LIST)}):"
                env2[v] = INT
                env2[w] = INT
            elif kind == 3 and self.f["dict_loops"]:
                w = self.fresh("j")
                head = f"for {v}, {w} in ({self.expr(env, DICT)}).items():"
                env2[v] = INT
                env2[w] = INT
            elif kind == 4:
                w = self.fresh("j")
                if self.f["zip_unequal"]:
                    head = f"for {v}, {w} in zip({self.expr(env, LIST)}, {self.expr(env, LIST)}):"
                else:
                    # F-C01-05: equal lengths by construction (the second argument is derived from the first)
                    first = self.expr(env, LIST, self.max_depth)
                    second = self.pick([f"sorted({first})", f"({first})[::-1]", f"[q_ * 2 for q_ in {first}]"])
                    head = f"for {v}, {w} in zip({first}, {second}):"
                env2[v] = INT
                env2[w] = INT
            else:
                head = f"for {v} in sorted({self.expr(env, SET)}):"
                env2[v] = INT
            body, _ = self.block(env2, ind + "    ", self.d(st.integers(1, 3)), depth + 1, True, in_func)
            if self.chance(4):
                body.append(ind + "    " + f"if {self.expr(env2, BOOL)}:")
                body.append(ind + "        " + self.pick(["break", "continue"]))
            lines = [ind + head] + body
            if self.f["loop_else"] and self.chance(8):
                lines += [ind + "else:", ind + "    " + self.show(env)]
            return lines, env
        if k == 10 and self.f["while"] and not deep:
            c = self.fresh("w")
            bound = self.d(st.integers(0, 4))
            env2 = dict(env)
            env2[c] = INT
            saved = self.ro
            self.ro = self.ro | {c}  # the loop counter is not rebound by the body: the loop terminates
            body, _ = self.block(env2, ind + "    ", self.d(st.integers(1, 2)), depth + 1, True, in_func)
            self.ro = saved
            lines = [ind + f"{c} = 0", ind + f"while {c} < {bound}:", ind + f"    {c} += 1"] + body
            return lines, env2
        if k == 11 and self.f["try"] and not deep:
            lst = self.expr(env, LIST)
            idx = self.expr(env, INT)
            lines = [ind + "try:", ind + f"    print(({lst})[{idx}])", ind + "except IndexError:", ind + f"    {self.show(env)}"]
            if self.chance(3):
                lines += [ind + "finally:", ind + f"    {self.show(env)}"]
            return lines, env
        if k == 12 and in_loop and self.chance(2):
            return [ind + f"if {self.expr(env, BOOL)}:", ind + "    " + self.pick(["break", "continue"])], env
        if k == 13 and in_func is not None:
            return [ind + f"if {self.expr(env, BOOL)}:", ind + f"    return {self.expr(env, in_func)}"], env
        if k == 14 and self.f["tuple_unpack"]:
            a, b = self.fresh("n"), self.fresh("n")
            line = ind + f"{a}, {b} = {self.expr(env, INT)}, {self.expr(env, INT)}"
            env = dict(env)
            env[a] = INT
            env[b] = INT
            return [line], env
        if k == 15 and self.f["unused"]:
            return [ind + f"{self.fresh('u')} = {self.expr(env, self.pick(TYPES))}"], env  # never read: unused variable
        if k == 16 and self.f["lambda"]:
            name = self.fresh("fn")
            a = self.fresh("a")
            env2 = dict(env)
            env2[a] = INT
            line = f"{name} = lambda {a}: {self.expr(env2, INT)}"
            return [ind + line, ind + f"print({name}({self.expr(env, INT)}))"], env
        if k == 17:
            self.no_calls += 1
            try:
                return [ind + f"assert {self.expr(env, BOOL)} or True"], env
            finally:
                self.no_calls -= 1
        if k == 18 and self.vars_of(env, DICT):
            d_ = self.pick(self.vars_of(env, DICT))
            return [ind + f"{d_}[{self.expr(env, INT)}] = {self.expr(env, INT)}"], env
        if k == 19 and self.vars_of(env, SET):
            s_ = self.pick(self.vars_of(env, SET))
            return [ind + f"{s_}.add({self.expr(env, INT)})"], env
        return [ind + self.show(env)], env

    # ---- definitions
    def funcdef(self, env, ind=""):
        name = self.fresh("func")
        nargs = self.d(st.integers(0, 3))
        args = [self.fresh("p") for _ in range(nargs)]
        ret = self.pick([INT, INT, LIST, STR, BOOL])
        fenv = {a: INT for a in args}
        saved_ro = self.ro
        self.ro = set()
        if self.f["globals_in_funcs"]:
            for n, t in env.items():
                if self.chance(2) and n not in fenv:
                    fenv[n] = t  # module globals bound before the definition (read only)
                    self.ro.add(n)
        sig = ", ".join(args)
        if args and self.chance(4):
            sig = ", ".join(args[:-1] + [f"{args[-1]}={self.d(st.integers(0, 3))}"])
        body, benv = self.block({k: v for k, v in fenv.items()}, ind + "    ", self.d(st.integers(1, 4)), 1, False, ret)
        # names assigned inside shadow globals: make sure they were assigned before being read (block guarantees)
        lines = [ind + f"def {name}({sig}):"]
        if self.chance(6):
            lines.append(ind + '    """Docstring of a generated function."""')
        lines += body + [ind + f"    return {self.expr(benv, ret)}"]
        self.ro = saved_ro
        self.funcs.append((name, nargs, ret))
        return lines

    def classdef(self, env):
        name = "C" + self.fresh("ls")
        lines = [f"class {name}:"]
        if self.chance(3):
            lines.append(f"    LIMIT = {self.d(st.integers(0, 5))}")
        lines += ["    def __init__(self, base):", "        self.base = base"]
        methods = []
        for _ in range(self.d(st.integers(1, 3))):
            m = self.fresh("meth")
            a = self.fresh("p")
            uses_self = not self.chance(3)
            menv = {a: INT}
            body, benv = self.block(menv, "        ", self.d(st.integers(0, 2)), 2, False, INT)
            ret = self.expr(benv, INT)
            if uses_self:
                ret = f"self.base + {ret}"
            deco = ""
            if not uses_self and self.chance(3):
                lines.append("    @staticmethod")
                lines.append(f"    def {m}({a}):")
            else:
                lines.append(f"    def {m}(self, {a}):")
            lines += body + [f"        return {ret}"]
            methods.append(m)
        self.classes.append((name, methods))
        return lines

    def module(self):
        lines = []
        env = {}
        if self.f["imports"] and self.chance(3):
            mod = self.pick(["math", "itertools", "collections", "functools", "os.path", "heapq", "re"])
            lines.append(f"import {mod}")
            if mod == "math" and self.chance(2):
                lines.append("print(math.floor(2.5))")
        nitems = self.d(st.integers(2, 7))
        for _ in range(nitems):
            k = self.d(st.integers(0, 9))
            if k <= 1:
                lines += self.funcdef(env)
                fn, nargs, ret = self.funcs[-1]
                call = f"{fn}({', '.join(self.expr(env, INT) for _ in range(nargs))})"
                if self.chance(5) and self.f["unused"]:
                    pass  # defined but never called: unused function
                else:
                    lines.append(f"print({call})" if ret != SET else f"print(sorted({call}))")
            elif k == 2 and self.f["classes"]:
                lines += self.classdef(env)
                cname, methods = self.classes[-1]
                obj = self.fresh("obj")
                lines.append(f"{obj} = {cname}({self.expr(env, INT)})")
                for m in methods:
                    if not self.chance(4):
                        lines.append(f"print({obj}.{m}({self.expr(env, INT)}))")
            else:
                ls, env = self.stmt(env, "", 0, False, None)
                lines += ls
        lines.append(self.show(env))
        return "\n".join(lines) + "\n"


@st.composite
def programs(draw, features=None):
    return G(draw, features).module()
