"""String literals with escape sequences, prefixes and implicit concatenation over one or several lines.

The idioms `invalid_escape_sequence`, `_substitute_original_strings` and `fix_line_lengths` work on: the VALUE of every
literal is printed through a list (so its repr is the observable), hence any stage that changes the text between the quotes in a
way that changes the value is seen by the execution oracle, and any stage that keeps re-laying-out a literal is seen by C09.
"""
from __future__ import annotations

import textwrap
import warnings

ESCAPES = ["\\x41", "\\101", "\\1", "\\0", "\\\n", "\\d", "\\w+", "\\N{BULLET}", "\\u00e9", "\\U0001F600", "\\\\", "\\'", '\\"', "\\n",
           "\\t", "\\q", "\\ ", "\\8", "\\x7e", "\\.", "\\[", "\\a", "\\b", "\\r"]
PLAIN = ["a", "b c", "x1", "{", "}", "%s", "#", " ", "é", "it", ""]
SQ, DQ = "'", '"'
QUOTES = [SQ, SQ, DQ, DQ, SQ * 3, DQ * 3]


def _compiles(code):
    try:
        with warnings.catch_warnings():
            warnings.simplefilter("ignore")
            compile(code, "<lit>", "exec")
        return True
    except (SyntaxError, ValueError):
        return False


def string_literal(d, allow_f=True):
    """One string literal whose text mixes plain text with (valid and invalid) escape sequences."""
    prefix = d.pick(["", "", "", "r", "b", "rb", "u", "R", "f" if allow_f else ""])
    quote = d.pick(QUOTES)
    parts = [d.pick(ESCAPES) if d.chance(2) else d.pick(PLAIN) for _ in range(d.int(1, 3))]
    text = "".join(parts)
    low = prefix.lower()
    if "b" in low:
        text = text.replace("\\N{BULLET}", "N").replace("\\u00e9", "u").replace("\\U0001F600", "U")
        text = "".join(ch for ch in text if ord(ch) < 128)
    if "r" in low:
        text = text.replace("\\N{BULLET}", "\\N").replace("\\'", "q").replace('\\"', "q")
    if "f" in low:
        text = text.replace("\\N{BULLET}", "\0").replace("{", "{{").replace("}", "}}").replace("\0", "\\N{BULLET}") + "{n}"
    if len(quote) == 1:
        text = text.replace(quote, "")
    else:
        text = text.replace(quote[0] * 2, quote[0])
        if text.endswith(quote[0]):
            text += " "
    if text.endswith("\\") and (len(text) - len(text.rstrip("\\"))) % 2:
        text += "z"
    lit = prefix + quote + text + quote
    if not _compiles("n = 1\n(" + lit + ")\n"):
        return SQ + "fallback" + SQ
    return lit


def _is_bytes(lit):
    return "b" in lit[:2].lower() and lit[:1] not in (SQ, DQ)


def fam_string_literals(d):
    lines = ["n = 3"]
    for k in range(d.int(1, 3)):
        lits = [string_literal(d) for _ in range(d.int(1, 3))]
        isb = [_is_bytes(lit) for lit in lits]
        lits = [lit for lit, b in zip(lits, isb) if b == isb[0]]
        join = d.pick(["space", "backslash", "backslash", "paren", "paren_nl", "plus"]) if len(lits) > 1 else "space"
        if join == "space":
            expr = " ".join(lits)
        elif join == "backslash":
            expr = (" \\\n" + " " * d.int(0, 8)).join(lits)
        elif join == "paren":
            expr = "(" + ("\n" + " " * d.int(0, 8)).join(lits) + ")"
        elif join == "paren_nl":
            expr = "(\n    " + "\n    ".join(lits) + "\n)"
        else:
            expr = " + ".join(lits)
        use = d.pick(["assign", "assign", "print", "call", "dict", "default", "regex"])
        if use == "assign":
            lines += [f"s{k} = {expr}", f"print([s{k}], len(s{k}))"]
        elif use == "print":
            lines.append(f"print([{expr}])")
        elif use == "call":
            lines.append(f"print(len({expr}), [({expr}).upper()])")
        elif use == "dict":
            lines += [f"d{k} = {{{expr}: {k}}}", f"print(d{k})"]
        elif use == "default":
            lines += [f"def g{k}(v={expr}):", "    return [v]", f"print(g{k}())"]
        else:
            lines += ["import re", f"pat{k} = {expr}", f"subj{k} = 'a1 b22 +.[d' if isinstance(pat{k}, str) else b'a1 b22 +.[d'", "try:",
                      f"    print(re.findall(pat{k}, subj{k}))", "except re.error:", "    print('re.error')"]
    body = "\n".join(lines) + "\n"
    if not _compiles(body):
        return "s = 'x\\\\d'\nprint([s])\n"
    if d.chance(3):
        return "def main():\n" + textwrap.indent(body, "    ") + "main()\n"
    return body
