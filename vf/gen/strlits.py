"""String literals with escape sequences, prefixes and implicit concatenation over one or several lines.

The idioms `invalid_escape_sequence`, `_substitute_original_strings` and `fix_line_lengths` work on: the VALUE of every
literal is printed through a list (so its repr is the observable), hence any stage that changes the text between the quotes in a
way that changes the value is seen by the execution oracle, and any stage that keeps re-laying-out a literal is seen by C09.
"""
from __future__ import annotations

import textwrap
import warnings

ESCAPES = ["\\x41", "\\101", "\\1", "\\0", "\\\n", "\\d", "\\w+", "\\N{BULLET}", "\\u00e9", "\\U0001F600", "\\\\", "\\'", '\\"', "\\n",
           "\\t", "\\q", "\\ ", "\\8", "\\x7e", "\\.", "\\[", "\\a", "\\b", "\\r"]
PLAIN = ["a", "b c", "x1", "{", "}", "%s", "#", " ", "é", "it", ""]
SQ, DQ = "'", '"'
QUOTES = [SQ, SQ, DQ, DQ, SQ * 3, DQ * 3]


def _compiles(code):
    try:
        with warnings.catch_warnings():
            warnings.simplefilter("ignore")
            compile(code, "<lit>", "exec")
        return True
    except (SyntaxError, ValueError):
        return False


def string_literal(d, allow_f=True):
    """One string literal whose text mixes plain text with (valid and invalid) escape sequences."""
    prefix = d.pick(["", "", "", "r", "b", "rb", "u", "R", "f" if allow_f else ""])
    quote = d.pick(QUOTES)
    parts = [d.pick(ESCAPES) if d.chance(2) else d.pick(PLAIN) for _ in range(d.int(1, 3))]
    text = "".join(parts)
    low = prefix.lower()
    if "b" in low:
        text = text.replace("\\N{BULLET}", "N").replace("\\u00e9", "u").replace("\\U0001F600", "U")
        text = "".join(ch for ch in text if ord(ch) < 128)
    if "r" in low:
        text = text.replace("\\N{BULLET}", "\\N").replace("\\'", "q").replace('\\"', "q")
    if "f" in low:
        text = text.replace("\\N{BULLET}", "\0").replace("{", "{{").replace("}", "}}").replace("\0", "\\N{BULLET}") + "{n}"
    if len(quote) == 1:
        text = text.replace(quote, "")
    else:
        text = text.replace(quote[0] * 2, quote[0])
        if text.endswith(quote[0]):
            text += " "
    if text.endswith("\\") and (len(text) - len(text.rstrip("\\"))) % 2:
        text += "z"
    lit = prefix + quote + text + quote
    if not _compiles("n = 1\n(" + lit + ")\n"):
        return SQ + "fallback" + SQ
    return lit


def _is_bytes(lit):
    return "b" in lit[:2].lower() and lit[:1] not in (SQ, DQ)


def fam_string_literals(d):
    lines = ["n = 3"]
    for k in range(d.int(1, 3)):
        lits = [string_literal(d) for _ in range(d.int(1, 3))]
        isb = [_is_bytes(lit) for lit in lits]
        lits = [lit for lit, b in zip(lits, isb) if b == isb[0]]
        join = d.pick(["space", "backslash", "backslash", "paren", "paren_nl", "plus"]) if len(lits) > 1 else "space"
        if join == "space":
            expr = " ".join(lits)
        elif join == "backslash":
            expr = (" \\\n" + " " * d.int(0, 8)).join(lits)
        elif join == "paren":
            expr = "(" + ("\n" + " " * d.int(0, 8)).join(lits) + ")"
        elif join == "paren_nl":
            expr = "(\n    " + "\n    ".join(lits) + "\n)"
        else:
            expr = " + ".join(lits)
        use = d.pick(["assign", "assign", "print", "call", "dict", "default", "regex"])
        if use == "assign":
            lines += [f"s{k} = {expr}", f"print([s{k}], len(s{k}))"]
        elif use == "print":
            lines.append(f"print([{expr}])")
        elif use == "call":
            lines.append(f"print(len({expr}), [({expr}).upper()])")
        elif use == "dict":
            lines += [f"d{k} = {{{expr}: {k}}}", f"print(d{k})"]
        elif use == "default":
            lines += [f"def g{k}(v={expr}):", "    return [v]", f"print(g{k}())"]
        else:
            lines += ["import re", f"pat{k} = {expr}", f"subj{k} = 'a1 b22 +.[d' if isinstance(pat{k}, str) else b'a1 b22 +.[d'", "try:",
                      f"    print(re.findall(pat{k}, subj{k}))", "except re.error:", "    print('re.error')"]
    body = "\n".join(lines) + "\n"
    if not _compiles(body):
        return "s = 'x\\\\d'\nprint([s])\n"
    if d.chance(3):
        return "def main():\n" + textwrap.indent(body, "    ") + "main()\n"
    return body


def fam_reported_shapes(d):
    """Shapes that independent reviewers of the rules reported (each one broke a rule at some point): class-body references to
    members that keep their name, chains of duplicate functions, loops that read what they build, indexes used twice, loosely
    binding collections under `in`, lambdas with defaults, shared names of pure and impure callables, self-comparison of calls,
    dead generators, missing imports under multi-line docstrings / parenthesised __future__ imports."""
    n = d.int(2, 4)
    body = d.pick([
        "class K:\n    someAttr = {n}\n    other = someAttr + 1\n    def getIt(self):\n        return self.other\n    alias = getIt\nprint(K.other, K.someAttr, K().alias())\n",
        "class K:\n    @property\n    def someProp(self):\n        return self._v\n    @someProp.setter\n    def someProp(self, v):\n        self._v = v + {n}\nk = K()\nk.someProp = 3\nprint(k.someProp)\n",
        "class K:\n    def helperOne(self):\n        return {n}\n    table = {'h': helperOne}\n    def run(self):\n        return self.table['h'](self)\nprint(K().run())\n",
        "def double(x):\n    return x * 2\ndef twice_over(x):\n    return x * 2\ndef f(x):\n    return twice_over(x) + 1\ndef g(x):\n    return twice_over(x) + 1\nif f(1):\n    print(f(1), g({n}), double(3), twice_over(4))\n",
        "def aa(x):\n    return x + {n}\ndef a_longer_name(x):\n    return x + {n}\ndef f(x):\n    return a_longer_name(x) * 2\ndef g(x):\n    return a_longer_name(x) * 2\nprint(f(1)); print(g(2), aa(3))\n",
        "x = []\nfor i in range({n}):\n    x.append(len(x))\nprint(x)\ns = set()\nfor i in range({n}):\n    s.add(len(s) * 2)\nprint(sorted(s))\nt = 1\nfor i in range({n}):\n    t += t * i\nprint(t)\n",
        "x = []\nfor i in range({n}):\n    x.append(i)\nelse:\n    print('else ran')\nprint(x)\nt = 0\nfor i in range({n}):\n    t += i\nelse:\n    print('else too')\nprint(t)\n",
        "x = [1, 2, 3, 4]\nprint([x[i] * i for i in range(len(x))], [x[i] + x[i] for i in range(len(x))], {i: x[i] for i in range(len(x))}, [x[i] for i in range(len(x))])\n",
        "a = []\nb = [{n}]\nprint({n} in list(a or b), {n} in tuple(b if a else a), {n} in sorted(a + b), 1 in list(b), {n} in set(a or b))\n",
        "def f(x, y):\n    return x + y\ng = lambda x, y={n}: f(x, y)\nh = lambda x, y: f(x, y)\nk = lambda *a, **kw: f(*a, **kw)\nprint(g(1), h(1, 2), k(1, y=2))\n",
        "class A:\n    def reset(self):\n        return 1\ndef reset():\n    print('impure reset')\nreset()\nA().reset()\nprint({n})\n",
        "def g():\n    print('g called')\n    return {n}\nif g() == g():\n    print('eq')\nprint(g() == g(), [g() == g() for _ in range(1)])\n",
        "x = [1, 2]\nprint([a for a in x for b in x if 0], [a for a in x if 0 for b in x], {a for a in x if 1 for b in range({n}) if 0}, [(a, b) for a in x for b in range({n}) if 1])\n",
        '"""Module doc\nmore text {n}\n"""\nprint(os.path.basename("a/b"), math.floor({n}.5))\n',
        "from __future__ import (\n    annotations,\n)\nx = os.path.basename('p/q')\nprint(x, {n})\n",
        "#!/usr/bin/env python\n# licence line\n'''Doc'''\nfrom __future__ import annotations\n# comment\nprint(os.path.basename('p/q'), {n})\n",
        "s = 'a b'\nx = os.path.basename('p/q')\nprint([s], x, {n})\n",
        "def f(q):\n    x0 = q + {n}\n    x1 = x0\n    x2 = x1\n    x3 = x2\n    x4 = x3\n    x5 = x4\n    x6 = x5\n    x7 = x6\n    return x7\nprint(f(1))\n",
        "import functools\n@functools.lru_cache(maxsize=None)\ndef f(a):\n    return 'a long string constant that is used often'\nprint('a long string constant that is used often', 'a long string constant that is used often')\nprint('a long string constant that is used often', 'a long string constant that is used often', f({n}))\nprint('a long string constant that is used often', 'a long string constant that is used often')\n",
    ]).replace("{n}", str(n))
    return body


def fam_deep_long_lines(d):
    """A call of 40-110 characters nested 5-11 blocks deep: lines near the length limit at indentations where the
    limit minus the indentation drops below black's minimum width."""
    depth = d.int(5, 11)
    args = [d.pick(["alpha", "beta_value", "gamma_long_argument", "delta", "epsilon_argument_name", "zeta", "eta_eta_eta"]) for _ in range(d.int(3, 8))]
    kw = d.chance(3)
    call = "combine(" + ", ".join(repr(a) for a in args) + (", last_keyword=1" if kw else "") + ")"
    stmt = d.pick(["print({c})", "total = {c}\nprint(total)", "print({c}, {c2})"]).replace("{c}", call).replace("{c2}", repr("tail " * d.int(1, 6)))
    lines = ["def combine(*a, **k):", "    return len(a) + len(k)", "flag = True"]
    ind = ""
    for j in range(depth):
        lines.append(ind + d.pick(["if flag:", f"for k{j} in range(1):", "if flag and True:", f"for k{j} in [0]:"]))
        ind += "    "
    lines += [ind + l for l in stmt.split("\n")]
    return "\n".join(lines) + "\n"
