"""(pattern, source) pairs derived from a source by abstracting sub-trees into wildcards, so that matches
exist by construction; plus near misses.  Used by C12, C13, C14."""
from __future__ import annotations

import ast
import copy

from hypothesis import strategies as st

PLACE = "vfph{}zz"

SKIP_INSIDE = (ast.JoinedStr, ast.FormattedValue, ast.MatchValue, ast.MatchAs, ast.MatchStar, ast.MatchMapping,
               ast.MatchClass, ast.MatchSequence, ast.MatchOr, ast.MatchSingleton, ast.Match)


def _candidates(tree):
    """Nodes usable as pattern roots: expressions and statements of moderate size without f-strings/match."""
    out = []
    for node in ast.walk(tree):
        if isinstance(node, (ast.expr, ast.stmt)) and not isinstance(node, (ast.Starred,)):
            if any(isinstance(n, SKIP_INSIDE) for n in ast.walk(node)):
                continue
            if isinstance(node, (ast.Name, ast.Constant)) and not isinstance(node, ast.stmt):
                # bare names / constants make dull patterns but are legal; keep a few
                out.append(node)
                continue
            out.append(node)
    return out


def _sub_exprs(root):
    """(parent, field, index, node) for expression sub-nodes of root that may become a wildcard."""
    out = []
    for parent in ast.walk(root):
        if isinstance(parent, (ast.keyword,)) and parent.arg is None:
            continue
        for field, value in ast.iter_fields(parent):
            if isinstance(parent, ast.Dict) and field == "keys":
                vals = [(i, v) for i, v in enumerate(value) if v is not None]
            elif isinstance(value, list):
                vals = list(enumerate(value))
            else:
                vals = [(None, value)]
            for i, v in vals:
                if not isinstance(v, ast.expr) or isinstance(v, (ast.Starred, ast.Slice)) or v is root:
                    continue
                if isinstance(parent, (ast.Global, ast.Nonlocal)):
                    continue
                if isinstance(parent, (ast.comprehension,)) and field == "target":
                    continue
                if isinstance(parent, ast.NamedExpr) and field == "target":
                    continue
                if isinstance(parent, (ast.withitem,)) and field == "optional_vars":
                    continue
                if isinstance(parent, (ast.ExceptHandler,)):
                    continue
                if isinstance(parent, (ast.arg, ast.arguments)):
                    continue
                out.append((parent, field, i, v))
    return out


def _set(parent, field, i, new):
    if i is None:
        setattr(parent, field, new)
    else:
        getattr(parent, field)[i] = new


def _contains(a, b):
    return any(n is b for n in ast.walk(a))


@st.composite
def derived(draw, source, tree=None, want_stmt=None, max_wild=3, allow_quant=True, allow_near=True):
    """Return dict(pattern=str, root_path=..., kind, classes=[...]) or None when the source offers nothing."""
    if tree is None:
        tree = ast.parse(source)
    cands = _candidates(tree)
    if want_stmt is True:
        cands = [c for c in cands if isinstance(c, ast.stmt)]
    elif want_stmt is False:
        cands = [c for c in cands if isinstance(c, ast.expr)]
    cands = [c for c in cands if len(ast.unparse(c)) <= 400]
    if not cands:
        return None
    target = draw(st.sampled_from(cands))
    root = copy.deepcopy(target)
    classes = ["stmt-pattern" if isinstance(root, ast.stmt) else "expr-pattern"]
    names = {}
    nwild = draw(st.sampled_from([0] + list(range(1, max_wild + 1)) * 2)) if max_wild else 0
    placeholders = {}
    counter = [0]

    def fresh(label, quant=""):
        key = PLACE.format(counter[0])
        counter[0] += 1
        placeholders[key] = "{{" + label + quant + "}}"
        return key

    taken = []
    for _ in range(nwild):
        subs = [s for s in _sub_exprs(root) if not any(_contains(t, s[3]) or _contains(s[3], t) for t in taken)]
        subs = [s for s in subs if not (isinstance(s[3], ast.Name) and s[3].id in placeholders)]
        if not subs:
            break
        twins = [s for s in subs if ast.unparse(s[3]) in names.values()]
        if twins and draw(st.integers(0, 3)) > 0:
            parent, field, i, node = draw(st.sampled_from(twins))
            text = ast.unparse(node)
            label = [k for k, v in names.items() if v == text][0]
            classes.append("repeated-wildcard")
            new = ast.Name(id=fresh(label), ctx=getattr(node, "ctx", ast.Load()))
            _set(parent, field, i, new)
            taken.append(new)
            classes.append("wildcard")
            continue
        texts = [ast.unparse(x[3]) for x in subs]
        multi = [x for x, t in zip(subs, texts) if texts.count(t) > 1]
        if multi and draw(st.integers(0, 2)) > 0:
            parent, field, i, node = draw(st.sampled_from(multi))  # a sub-tree that occurs twice: a twin can follow
        else:
            parent, field, i, node = draw(st.sampled_from(subs))
        text = ast.unparse(node)
        mode = draw(st.sampled_from(["named", "named", "named", "ellipsis", "repeat"]))
        if mode == "ellipsis":
            label = "..."
        elif mode == "repeat" and names:
            # reuse a name: positive if the texts agree, near miss otherwise
            label = draw(st.sampled_from(sorted(names)))
            classes.append("repeated-wildcard" if names[label] == text else "repeated-wildcard-mismatch")
        else:
            label = "w" + str(len(names))
            same = [k for k, v in names.items() if v == text]
            if same and draw(st.booleans()):
                label = same[0]
                classes.append("repeated-wildcard")
            names.setdefault(label, text)
        new = ast.Name(id=fresh(label), ctx=getattr(node, "ctx", ast.Load()))
        _set(parent, field, i, new)
        taken.append(new)
        classes.append("wildcard")

    if allow_quant and draw(st.integers(0, 2)) == 0:
        # replace a contiguous run of list elements by one quantified wildcard
        lists = []
        for parent in ast.walk(root):
            for field in ("args", "elts", "body", "orelse"):
                value = getattr(parent, field, None)
                if isinstance(parent, (ast.arguments, ast.Lambda, ast.IfExp, ast.ListComp, ast.SetComp, ast.GeneratorExp, ast.DictComp)):
                    continue
                if isinstance(value, list) and all(isinstance(v, (ast.expr, ast.stmt)) for v in value):
                    if any(isinstance(v, ast.Starred) for v in value):
                        continue
                    lists.append((parent, field, value))
        if lists:
            parent, field, value = draw(st.sampled_from(lists))
            a = draw(st.integers(0, len(value)))
            b = draw(st.integers(a, len(value)))
            run = value[a:b]
            if not any(isinstance(n, ast.Name) and n.id in placeholders for r in run for n in ast.walk(r)):
                quant = draw(st.sampled_from(["*", "*", "+", "?"]))
                ok = (quant == "*") or (quant == "+" and len(run) >= 1) or (quant == "?" and len(run) <= 1)
                is_stmt = field in ("body", "orelse")
                if is_stmt and a == 0 and b == len(value) and quant != "+" and not run:
                    ok = ok  # empty run in an empty list cannot happen (bodies are non-empty)
                label = "..."
                if draw(st.integers(0, 3)) == 0:
                    label = "q"
                    texts = {ast.unparse(r) for r in run}
                    if len(texts) > 1:
                        ok = False  # a named quantified wildcard needs equal repetitions
                key = fresh(label, quant)
                node = ast.Name(id=key, ctx=ast.Load())
                if is_stmt:
                    node = ast.Expr(value=node)
                value[a:b] = [node]
                classes.append("quantified")
                classes.append("quantified-match" if ok else "quantified-mismatch")

    if isinstance(root, (ast.FunctionDef, ast.ClassDef)) and draw(st.integers(0, 2)) == 0:
        root.name = fresh("ident")
        classes.append("identifier-wildcard")
    attrs = [n for n in ast.walk(root) if isinstance(n, ast.Attribute)]
    if attrs and draw(st.integers(0, 4)) == 0:
        draw(st.sampled_from(attrs)).attr = fresh("attr")
        classes.append("identifier-wildcard")

    near = False
    if allow_near and draw(st.integers(0, 3)) == 0:
        leaves = [n for n in ast.walk(root) if isinstance(n, ast.Name) and n.id not in placeholders]
        consts = [n for n in ast.walk(root) if isinstance(n, ast.Constant) and isinstance(n.value, (int, str)) and not isinstance(n.value, bool)]
        pool = leaves + consts
        if pool:
            n = draw(st.sampled_from(pool))
            if isinstance(n, ast.Name):
                n.id = n.id + "_nm"
            elif isinstance(n.value, int):
                n.value = n.value + 1
            else:
                n.value = n.value + "~"
            near = True
            classes.append("near-miss")

    ast.fix_missing_locations(root)
    try:
        text = ast.unparse(root)
    except Exception:
        return None
    for key, repl in placeholders.items():
        text = text.replace(key, repl)
    if text.strip().startswith("{{") and text.strip().endswith("}}") and text.count("{{") == 1:
        return None  # a bare wildcard as the whole pattern is outside the domain
    if "{{{" in text or "}}}" in text:
        return None  # a wildcard directly inside a set/dict display is lexically ambiguous
    return {"pattern": text, "classes": classes, "near": near,
            "target": [type(target).__name__, target.lineno, target.col_offset, target.end_lineno, target.end_col_offset]}


@st.composite
def derived_sequence(draw, source, tree=None, max_wild=2):
    """A fixed-length statement-sequence pattern taken from consecutive statements of some body."""
    if tree is None:
        tree = ast.parse(source)
    bodies = []
    for owner in ast.walk(tree):
        for field in ("body", "orelse", "finalbody"):
            body = getattr(owner, field, None)
            if isinstance(body, list) and len(body) >= 2 and isinstance(body[0], ast.stmt):
                bodies.append(body)
    if not bodies:
        return None
    body = draw(st.sampled_from(bodies))
    k = draw(st.integers(2, min(3, len(body))))
    s = draw(st.integers(0, len(body) - k))
    window = body[s:s + k]
    if any(isinstance(n, SKIP_INSIDE) for w in window for n in ast.walk(w)):
        return None
    if sum(len(ast.unparse(w)) for w in window) > 600:
        return None
    mod = ast.Module(body=copy.deepcopy(window), type_ignores=[])
    placeholders = {}
    names = {}
    classes = ["sequence-pattern"]
    for idx in range(draw(st.integers(0, max_wild))):
        subs = [x for x in _sub_exprs(mod) if not (isinstance(x[3], ast.Name) and x[3].id in placeholders)]
        subs = [x for x in subs if not any(isinstance(n, ast.Name) and n.id in placeholders for n in ast.walk(x[3]))]
        if not subs:
            break
        parent, field, i, node = draw(st.sampled_from(subs))
        text = ast.unparse(node)
        same = [kk for kk, v in names.items() if v == text]
        if same and draw(st.booleans()):
            label = same[0]
            classes.append("repeated-wildcard")
        else:
            label = "s" + str(len(names))
            names[label] = text
        key = PLACE.format(len(placeholders))
        placeholders[key] = "{{" + label + "}}"
        _set(parent, field, i, ast.Name(id=key, ctx=getattr(node, "ctx", ast.Load())))
        classes.append("wildcard")
    if draw(st.integers(0, 3)) == 0:
        j = draw(st.integers(0, k - 1))
        key = PLACE.format(len(placeholders))
        placeholders[key] = "{{...}}"
        if not any(isinstance(n, ast.Name) and n.id in placeholders and n.id != key for n in ast.walk(mod.body[j])):
            mod.body[j] = ast.Expr(value=ast.Name(id=key, ctx=ast.Load()))
            classes.append("statement-wildcard")
    ast.fix_missing_locations(mod)
    try:
        text = ast.unparse(mod)
    except Exception:
        return None
    for key, repl in placeholders.items():
        text = text.replace(key, repl)
    if "{{{" in text or "}}}" in text:
        return None
    return {"pattern": text, "classes": classes, "near": False, "k": k}
