"""One parametric program family per rule (group): a closed program containing the idiom the rule rewrites,
with drawn parameters and placement.  Every family prints its results, so behaviour is observable."""
from __future__ import annotations

import textwrap

from hypothesis import strategies as st

from vf.gen.strlits import fam_deep_long_lines, fam_reported_shapes, fam_string_literals

ITERS = ["range(5)", "[3, 1, 2]", "[]", "[0, 0, 4]", "(1, 2, 3)", "range(2, 7)", "[5]", "data", "sorted({4, 2})"]
CONDS = ["x > 1", "x % 2 == 0", "x", "not x", "x in (1, 3)", "x != 2", "x >= 0 and x < 4", "True", "check(x)"]
ELTS = ["x", "x * 2", "x + 1", "str(x)", "(x, x)", "-x", "x ** 2", "twice(x)"]
PRELUDE = "data = [4, 0, 7, 2]\ndef twice(v):\n    return v * 2\ndef check(v):\n    return v % 3 == 0\n"


# Findings whose shapes the families avoid (exclusion by construction); remove an id when it is fixed.
AVOID = {"F-C01-01", "F-C01-02", "F-C01-03", "F-C01-04", "F-C01-05", "F-C01-07"}


class D:
    def __init__(self, draw):
        self.draw = draw

    def pick(self, seq):
        return self.draw(st.sampled_from(list(seq)))

    def chance(self, n):
        return self.draw(st.integers(0, n - 1)) == 0

    def int(self, a, b):
        return self.draw(st.integers(a, b))


def _wrap(d, body, call="", uses_prelude=True):
    """Place `body` (a block of statements that prints) at module level, inside a def, a class method, under
    if/for/try/with, or at end of file without trailing newline."""
    place = d.pick(["module", "module", "def", "def", "if", "for", "try", "method", "eof"])
    pre = PRELUDE if uses_prelude else ""
    body = textwrap.dedent(body).strip("\n") + "\n"
    if place == "module":
        return pre + body
    if place == "eof":
        return (pre + body).rstrip("\n")
    if place == "def":
        return pre + "def main():\n" + textwrap.indent(body, "    ") + "main()\n"
    if place == "if":
        return pre + "flag = len(data) > 2\nif flag:\n" + textwrap.indent(body, "    ")
    if place == "for":
        return pre + "for rep in range(2):\n" + textwrap.indent(body, "    ")
    if place == "try":
        return pre + "try:\n" + textwrap.indent(body, "    ") + "except KeyError:\n    print('key')\n"
    if place == "method":
        return pre + "class Runner:\n    def run(self):\n" + textwrap.indent(body, "        ") + "Runner().run()\n"
    return pre + body


def fam_for_append(d):
    it, cond, elt = d.pick(ITERS), d.pick(CONDS), d.pick(ELTS)
    kind = d.pick(["list", "set"])
    init, add, show = ("[]", "append", "print(out)") if kind == "list" else ("set()", "add", "print(sorted(out, key=str))")
    if kind == "set":
        elt = d.pick(["x", "x * 2", "x + 1", "-x", "x % 2"])
    guard = d.pick(["none", "if", "if", "ifnot_continue", "nested"])
    if guard == "none":
        body = f"out = {init}\nfor x in {it}:\n    out.{add}({elt})\n{show}\n"
    elif guard == "if":
        body = f"out = {init}\nfor x in {it}:\n    if {cond}:\n        out.{add}({elt})\n{show}\n"
    elif guard == "ifnot_continue":
        body = f"out = {init}\nfor x in {it}:\n    if not ({cond}):\n        continue\n    out.{add}({elt})\n{show}\n"
    else:
        body = f"out = {init}\nfor x in {it}:\n    for y in range(2):\n        if {cond}:\n            out.{add}({elt})\n{show}\n"
    if d.chance(4):
        body = body.replace(f"out = {init}\n", f"out = {init}\nprint(len(out))\n")
    if d.chance(4):
        pre_elts = "[9, 8]" if kind == "list" else "{9, 8}"
        body = body.replace(f"out = {init}\n", f"out = {pre_elts}\n")
    return _wrap(d, body)


def fam_for_dict(d):
    it, cond = d.pick(["range(4)", "[3, 1, 2]", "[]", "data", "[1, 1, 2]"]), d.pick(CONDS)
    val = d.pick(["x * 2", "str(x)", "x", "twice(x)"])
    g = d.pick(["none", "if"])
    inner = f"    out[x] = {val}\n" if g == "none" else f"    if {cond}:\n        out[x] = {val}\n"
    init = d.pick(["{}", "{}", "dict()", "{9: 9}"])
    return _wrap(d, f"out = {init}\nfor x in {it}:\n{inner}print(out)\n")


def fam_dict_literal(d):
    lines = ["cfg = {}" if d.chance(2) else "cfg = {0: 'z'}"]
    for k in range(d.int(1, 4)):
        kind = d.pick(["assign", "assign", "update", "updatecomp"])
        if kind == "assign":
            key = k + 1 if "F-C01-02" in AVOID else d.int(0, 3)  # F-C01-02: duplicate keys change the key order
            lines.append(f"cfg[{key}] = {d.pick(['1', 'len(data)', 'twice(2)', repr('s')])}")
        elif kind == "update":
            key = 10 + k if "F-C01-02" in AVOID else d.int(0, 5)
            lines.append(f"cfg.update({{{key}: {d.int(0, 9)}}})")
        else:
            lines.append(f"cfg.update({{k + {20 + 10 * k if 'F-C01-02' in AVOID else 0}: k + 1 for k in range({d.int(0, 3)})}})")
    if d.chance(3):
        lines.insert(1, "print(len(cfg))")
    lines.append("print(cfg)")
    return _wrap(d, "\n".join(lines) + "\n")


def fam_collection_literal(d):
    kind = d.pick(["list", "set"])
    lines = ["acc = [1]" if kind == "list" else "acc = {1}"]
    for _ in range(d.int(1, 4)):
        if kind == "list":
            lines.append(d.pick(["acc.append({})", "acc.extend([{}, 5])", "acc.extend(data)", "acc.append(twice({}))"]).format(d.int(0, 6)))
        else:
            lines.append(d.pick(["acc.add({})", "acc.update({{{}, 5}})", "acc.update(data)", "acc.add(twice({}))"]).format(d.int(0, 6)))
    if d.chance(3):
        lines.insert(d.int(1, len(lines)), "print(len(acc))")
    lines.append("print(sorted(acc))")
    return _wrap(d, "\n".join(lines) + "\n")


def fam_comp_then_add(d):
    it = d.pick(ITERS)
    kind = d.pick(["list_append", "list_extend", "set_add", "set_update", "list_loop"])
    if kind == "list_append":
        body = f"acc = [x + 1 for x in {it}]\nacc.append(99)\nprint(acc)\n"
    elif kind == "list_extend":
        body = f"acc = [x + 1 for x in {it}]\nacc.extend([7, 8])\nprint(acc)\n"
    elif kind == "set_add":
        body = f"acc = {{x + 1 for x in {it}}}\nacc.add(99)\nprint(sorted(acc))\n"
    elif kind == "set_update":
        body = f"acc = {{x + 1 for x in {it}}}\nacc.update({{7, 8}})\nprint(sorted(acc))\n"
    else:
        body = f"acc = [x + 1 for x in {it}]\nfor y in data:\n    acc.append(y * 3)\nprint(acc)\n"
    return _wrap(d, body)


def fam_nested_comp(d):
    body = d.pick([
        "m = [[i * j for j in range(3)] for i in range(2)]\nflat = []\nfor row in m:\n    for v in row:\n        flat.append(v)\nprint(flat)\n",
        "print([y for y in [x * 2 for x in {it}] if y > 2])\n",
        "print(list(x + 1 for x in {it}))\nprint(set([x for x in {it}]))\nprint(list([x for x in {it}]))\nprint(list(iter([x for x in {it}])))\n",
        "print(sorted(set(x % 3 for x in {it})))\nprint(tuple([x for x in {it}]))\n",
        "print([x for x in (y + 1 for y in {it})])\nprint(sum([x for x in {it}]))\n",
        "gen = (x for x in {it})\nprint(list(gen))\nprint([x for x in {it}])\nprint({{x for x in {it}}} == set({it}))\n",
        "print(any([x > 2 for x in {it}]), all([x > 2 for x in {it}]))\n",
        "pairs = []\nfor a in {it}:\n    for b in range(2):\n        pairs.append((a, b))\nprint(pairs)\n",
    ]).replace("{it}", d.pick(ITERS))
    return _wrap(d, body)


def fam_map_filter_lambda(d):
    it = d.pick(ITERS)
    body = d.pick([
        f"print(list(map(lambda v: v * 2, {it})))\n",
        f"print(list(filter(lambda v: v > 1, {it})))\n",
        f"print(list(map(lambda v: twice(v), {it})))\n",
        f"print(list(filter(lambda v: check(v), {it})))\n",
        f"print(sorted({it}, key=lambda v: -v))\n",
        f"f = lambda v: twice(v)\nprint(f(3))\n",
        f"f = lambda: []\nprint(f())\ng = lambda: 0\nprint(g())\n",
        f"print(list(map(lambda v: (v, v + 1), {it})))\nprint(sum(map(lambda v: v, {it})))\n",
    ])
    return _wrap(d, body)


def fam_with_filter(d):
    it, act = d.pick(ITERS), d.pick(["print(x)", "print(x, rep2)", "total += x"])
    kind = d.pick(["if_x", "if_call", "not_continue", "if_else"])
    pre = "total = 0\nrep2 = 1\n"
    if kind == "if_x":
        body = f"{pre}for x in {it}:\n    if x:\n        {act}\nprint(total)\n"
    elif kind == "if_call":
        body = f"{pre}for x in {it}:\n    if check(x):\n        {act}\nprint(total)\n"
    elif kind == "not_continue":
        body = f"{pre}for x in {it}:\n    if not check(x):\n        continue\n    {act}\nprint(total)\n"
    else:
        body = f"{pre}for x in {it}:\n    if check(x):\n        {act}\n    else:\n        print('no', x)\nprint(total)\n"
    return _wrap(d, body)


def fam_zip_enumerate(d):
    body = d.pick([
        "for i, v in enumerate({it}):\n    print(v)\n",
        "for _, v in enumerate({it}):\n    print(v)\n",
        "for i, _ in enumerate({it}):\n    print(i)\n",
        "for a, _ in zip({zit}, [7, 8, 9]):\n    print(a)\n",
        "for _, b in zip({zit}, [7, 8, 9]):\n    print(b)\n",
        "for a, _, c in zip({zit}, [7, 8, 9], 'xyz'):\n    print(a, c)\n",
        "print([v for _, v in enumerate({it})])\n",
        "print([a for a, _ in zip({zit}, [1, 2, 3])])\n",
        "for i in range(len(data)):\n    print(data[i])\n",
        "print([data[i] for i in range(len(data))])\n",
    ]).replace("{it}", d.pick(ITERS)).replace("{zit}", d.pick(["[3, 1, 2]", "(1, 2, 3)", "range(3)"]) if "F-C01-05" in AVOID else d.pick(ITERS))
    return _wrap(d, body)


def fam_dict_items(d):
    dd = d.pick(["{1: 2, 3: 4}", "{}", "{0: 0}", "dict(zip(data, data))"])
    body = d.pick([
        "m = {dd}\nfor k, _ in m.items():\n    print(k)\n",
        "m = {dd}\nfor _, v in m.items():\n    print(v)\n",
        "m = {dd}\nfor k in m:\n    print(k, m[k])\n",
        "m = {dd}\nfor k in m.keys():\n    print(m[k])\n",
        "m = {dd}\nprint([k for k, _ in m.items()])\nprint([v for _, v in m.items()])\n",
        "m = {dd}\nprint({{k: m[k] for k in m}})\nprint([m[k] + k for k in m.keys()])\n",
        "m = {dd}\nprint(sorted(m.keys()), list(m.values()))\nfor k, v in m.items():\n    print(k)\n",
    ]).replace("{dd}", dd)
    return _wrap(d, body)


def fam_if_return(d):
    cond = d.pick(["v > 2", "v", "v in data", "check(v)", "v > 1 and v < 5", "not v", "v == 0 or check(v)", "v and data", "data and v", "v or len(data) - 4",
                   "twice(v) and v - 1", "(v, 1)[0] and 'text'", "v if v > 2 else 0"])
    body = d.pick([
        "def t(v):\n    if {c}:\n        return True\n    return False\n",
        "def t(v):\n    if {c}:\n        return False\n    return True\n",
        "def t(v):\n    if {c}:\n        return True\n    else:\n        return False\n",
        "def t(v):\n    if {c}:\n        r = True\n    else:\n        r = False\n    return r\n",
        "def t(v):\n    if {c}:\n        r = False\n    else:\n        r = True\n    return r\n",
        "def t(v):\n    r = v + 1\n    return r\n",
        "def t(v):\n    if {c}:\n        r = 1\n    else:\n        r = 2\n    return r\n",
        "def t(v):\n    if {c}:\n        return 1\n    else:\n        return 2\n",
        "def t(v):\n    if {c}:\n        return 1\n    elif v == 3:\n        return 3\n    else:\n        print('e')\n    return 2\n",
        "def t(v):\n    if {c}:\n        print('a')\n        return 1\n    else:\n        print('b')\n    print('c')\n    return 2\n",
    ]).replace("{c}", cond)
    return PRELUDE + body + "for q in [0, 1, 2, 3, 4, 7]:\n    print(t(q))\n"


def fam_swap_if_else(d):
    cond = d.pick(["v > 2", "v", "check(v)", "v > 1 and v < 5", "not v", "v != 3", "v in data or v == 9"])
    body = d.pick([
        "def t(v):\n    if {c}:\n        pass\n    else:\n        print('e', v)\n    return v\n",
        "def t(v):\n    if {c}:\n        print(1)\n        print(2)\n        print(3)\n        print(4)\n    else:\n        return 0\n    return v\n",
        "def t(v):\n    out = 0\n    for i in range(3):\n        if {c}:\n            out += 1\n            out += i\n            out *= 2\n            out -= 1\n            out += v\n            print(out)\n    return out\n",
        "def t(v):\n    if {c}:\n        if v > 3:\n            print('x')\n            return 1\n        print('y')\n        return 2\n    return 3\n",
        "def t(v):\n    r = 0\n    if {c}:\n        r = 5\n        print(r)\n    else:\n        raise ValueError(v)\n    return r\n",
    ]).replace("{c}", cond)
    return PRELUDE + body + "for q in [0, 1, 2, 3, 4, 7]:\n    try:\n        print(t(q))\n    except ValueError:\n        print('ve')\n"


def fam_common_code_ifs(d):
    body = d.pick([
        "def t(v):\n    if v > 2:\n        print('start')\n        print('big')\n    else:\n        print('start')\n        print('small')\n    return v\n",
        "def t(v):\n    if v > 2:\n        print('big')\n        print('end')\n    else:\n        print('small')\n        print('end')\n    return v\n",
        "def t(v):\n    if v > 2:\n        w = v + 1\n        print(w)\n    elif v > 0:\n        w = v + 1\n        print(-w)\n    else:\n        w = v + 1\n    return w\n",
        "def t(v):\n    if check(v):\n        print(v)\n        return 1\n    else:\n        print(v)\n        return 2\n",
        "def t(v):\n    if v > 2:\n        x = twice(v)\n        y = x + 1\n        print(x, y)\n    else:\n        x = twice(v)\n        y = x - 1\n        print(x, y)\n    return y\n",
    ])
    tail = "for q in [0, 1, 3, 6]:\n    print(t(q))"
    if d.chance(3):
        return PRELUDE + body + tail  # no trailing newline: the if/else may be the last statement of a body
    return PRELUDE + body + tail + "\n"


def fam_dead_code(d):
    body = d.pick([
        "def t(v):\n    return v\n    print('dead')\n",
        "def t(v):\n    if v:\n        return 1\n    else:\n        return 2\n    print('dead')\n",
        "def t(v):\n    for i in range(v):\n        if i == 2:\n            break\n        print(i)\n    print('after')\n    return v\n",
        "def t(v):\n    while True:\n        v += 1\n        if v > 3:\n            break\n    print('after', v)\n    return v\n",
        "def t(v):\n    for i in range(v):\n        return i\n    print('empty loop')\n    return -1\n",
        "def t(v):\n    while v < 3:\n        return 0\n    print('not entered')\n    return v\n",
        "def t(v):\n    for i in range(3):\n        continue\n        print('dead')\n    return v\n",
        "def t(v):\n    try:\n        return data[v]\n    except IndexError:\n        print('ie')\n    print('after try')\n    return -1\n",
        "def t(v):\n    if False:\n        print('never')\n    if 0:\n        print('never')\n    elif v:\n        print('v')\n    while 0:\n        print('never')\n    return v if True else 0\n",
        "def t(v):\n    assert v >= 0\n    print('ok')\n    return v\n",
        "def t(v):\n    raise_it = v > 5\n    if raise_it:\n        raise ValueError(v)\n    print('fine')\n    return v\n",
        "def t(v):\n    with open_ctx() as c:\n        return v + c\n    print('dead')\n",
    ])
    ctx = "class open_ctx:\n    def __enter__(self):\n        return 1\n    def __exit__(self, *a):\n        return False\n"
    return PRELUDE + ctx + body + "for q in [0, 1, 2, 4, 6]:\n    try:\n        print(t(q))\n    except ValueError:\n        print('ve')\n"


JUMP_WRAPPERS = [
    "if n >= v:\n    {jump}\n",
    "if n < v:\n    pass\nelse:\n    {jump}\n",
    "try:\n    if n >= v:\n        raise KeyError(n)\nexcept KeyError:\n    {jump}\n",
    "try:\n    data[n - v + 4]\nexcept IndexError:\n    {jump}\n",
    "try:\n    pass\nfinally:\n    if n >= v:\n        {jump}\n",
    "try:\n    m = n\nexcept KeyError:\n    pass\nelse:\n    if m >= v:\n        {jump}\n",
    "with open_ctx():\n    if n >= v:\n        {jump}\n",
    "match n >= v:\n    case True:\n        {jump}\n    case _:\n        pass\n",
    "for _ in []:\n    pass\nelse:\n    if n >= v:\n        {jump}\n",
    "while n < v:\n    n += 1\nelse:\n    {jump}\n",
    "try:\n    try:\n        raise KeyError(n)\n    finally:\n        n += 0\nexcept KeyError:\n    if n >= v:\n        {jump}\n",
]


def fam_loop_exit(d):
    """A loop with a constant-true test whose ONLY exit sits in a nested position (handler, finally, else, with, match case)."""
    head = d.pick(["while True:", "while 1:", "while not False:", "while 'x':"])
    jump = d.pick(["break", "break", "break", "return n"])
    wrapper = d.pick(JUMP_WRAPPERS).replace("{jump}", jump)
    pre = d.pick(["", "print('it', n)\n", "if n > 50:\n    raise ValueError(n)\n"])
    body = "n += 1\n" + pre + wrapper
    after = d.pick(["print('after', n)\nreturn n\n", "total = n * 2\nprint('after')\nreturn total\n", "return -n\n"])
    fn = "def t(v):\n    n = 0\n    " + head + "\n" + textwrap.indent(body, "        ") + textwrap.indent(after, "    ")
    ctx = "class open_ctx:\n    def __enter__(self):\n        return 1\n    def __exit__(self, *a):\n        return False\n"
    return PRELUDE + ctx + fn + "for q in [0, 1, 3]:\n    print(t(q))\n"


def fam_pointless(d):
    stmts = ["v", "3", "'text'", "v + 1", "[v, 2]", "twice(v)", "check(v) or print('side')", "data.append(v)", "(print('gen') for _ in data)",
             "[print('lc') for _ in range(1)]", "v if v else print('x')", "f'{print(1)}'", "data[0]", "v == 2", "None", "...",
             "lambda: print(2)", "{v: 1}", "print", "pure(v)", "-v", "not v"]
    chosen = [d.pick(stmts) for _ in range(d.int(1, 3))]
    body = "def pure(a):\n    return a + 1\ndef t(v):\n" + "".join(f"    {s}\n" for s in chosen) + "    return v\n"
    return PRELUDE + body + "print(t(1))\nprint(len(data))\n"


def fam_unused(d):
    body = d.pick([
        "def t(v):\n    unused = v * 2\n    used = v + 1\n    return used\nprint(t(2))\n",
        "def t(v):\n    a, b = v, v + 1\n    return a\nprint(t(2))\n",
        "def t(v):\n    for i in range(3):\n        print(v)\n    return v\nprint(t(2))\n",
        "def t(v):\n    tmp = twice(v)\n    tmp = 5\n    return tmp\nprint(t(2))\n",
        "def helper_unused(a):\n    return a\ndef t(v):\n    return v\nprint(t(2))\n",
        "class Unused:\n    pass\nclass Used:\n    k = 3\nprint(Used.k)\n",
        "def t(v):\n    x = print('effect')\n    return v\nprint(t(2))\n",
        "def t(v):\n    acc = []\n    acc.append(v)\n    w = data\n    w.append(1)\n    return v\nprint(t(2))\nprint(data)\n",
        "def t(v):\n    res = [i for i in range(v)]\n    return 0\nprint(t(2))\n",
        "import os\nimport sys\nimport math\nprint(math.floor(1.5))\n",
        "def t(v):\n    with open_ctx() as c:\n        pass\n    return v\nclass open_ctx:\n    def __enter__(self):\n        print('enter')\n        return 1\n    def __exit__(self, *a):\n        print('exit')\nprint(t(1))\n",
        "def t(v):\n    try:\n        pass\n    except ValueError as err:\n        print('x')\n    return v\nprint(t(1))\n",
    ])
    return PRELUDE + body


def fam_move_before_loop(d):
    it = d.pick(["range(3)", "[]", "range(0)", "data", "[1]"])
    body = d.pick([
        "def t(v):\n    out = []\n    for i in {it}:\n        k = v * 2\n        out.append(k + i)\n    return out\n",
        "def t(v):\n    out = 0\n    for i in {it}:\n        limit = len(data)\n        out += limit + i\n    return out\n",
        "def t(v):\n    k = -1\n    for i in {it}:\n        k = twice(v)\n        print(k)\n    return k\n",
        "def t(v):\n    w = 0\n    while w < v:\n        step = 1\n        w += step\n    return w\n",
        "def t(v):\n    out = []\n    for i in {it}:\n        base = [v]\n        base.append(i)\n        out.append(base)\n    return out\n",
        "def t(v):\n    for i in {it}:\n        c = i + 1\n        print(c)\n    for i in {it}:\n        z = 4\n        print(z + i)\n    return v\n",
    ]).replace("{it}", it)
    return PRELUDE + body + "print(t(2))\nprint(t(0))\n"


def fam_classes(d):
    body = d.pick([
        "class K:\n    def __init__(self, a):\n        self.a = a\n    def plain(self, v):\n        return v * 2\n    def uses(self, v):\n        return self.a + v\nk = K(3)\nprint(k.plain(2), k.uses(2))\n",
        "class K:\n    @staticmethod\n    def helper(v):\n        return v + 1\n    def run(self, v):\n        return self.helper(v) * 2\nprint(K().run(3), K.helper(1))\n",
        "class K:\n    @classmethod\n    def make(cls, v):\n        return v + 1\n    @classmethod\n    def other(cls, v):\n        return cls.make(v)\nprint(K.make(1), K.other(2))\n",
        "class K:\n    def a(self, v):\n        return v\n    def b(self, v):\n        return self.a(v) + 1\nclass L(K):\n    def a(self, v):\n        return v * 10\nprint(K().b(1), L().b(1))\n",
        "class K(object):\n    x = 1\n    def get(self):\n        return self.x\nprint(K().get())\n",
        "class K:\n    def __init__(self):\n        self.items = []\n    def add(self, v):\n        self.items.append(v)\n        return len(self.items)\nk = K()\nprint(k.add(1), k.add(2))\n",
        "class K:\n    def plain(self, v):\n        return twice(v)\n    @staticmethod\n    def s(v):\n        return v - 1\nprint(K().plain(2), K().s(5), K.s(6))\nf = K().plain\nprint(f(4))\n",
        "class K:\n    count = 0\n    def bump(self):\n        K.count += 1\n        return K.count\nprint(K().bump(), K().bump())\n",
    ])
    return PRELUDE + body


def fam_duplicates(d):
    body = d.pick([
        "def a1(v):\n    return v * 2 + 1\ndef a2(w):\n    return w * 2 + 1\nprint(a1(1), a2(2))\n",
        "def a1(v):\n    t = v + 1\n    return t\ndef a2(v):\n    t = v + 1\n    return t\ndef a3(v):\n    return v\nprint(a1(1), a2(2), a3(3))\n",
        "print({1, 2, 2, 1, 3} == {1, 2, 3})\nprint({'b': 2, 'a': 1, 'a': 3})\nprint({1: 'x', 1: 'y'})\n",
        "print(sorted({twice(1), twice(1), 3}))\nprint({data[0]: 1, data[0]: 2})\n",
        "import math\nimport math\nfrom math import floor\nfrom math import floor, ceil\nprint(floor(1.5), ceil(1.5), math.pi > 3)\n",
        "import os, sys\nimport os.path\nprint(os.path.basename('a/b'), sys.maxsize > 0)\n",
    ])
    return PRELUDE + body


def fam_builtin_chains(d):
    v = d.pick(["data", "[3, 1, 2]", "(2, 1)", "[]", "range(4)"])
    exprs = ["sorted(list({v}))", "list(sorted({v}))", "sorted(reversed(list({v})))", "list(reversed(sorted({v})))", "list(reversed(sorted({v}, reverse=True)))",
             "sorted(sorted({v}), reverse=True)", "set(list({v})) == set({v})", "sum(list({v}))", "sum(sorted({v}))", "tuple(list({v}))", "list(iter({v}))",
             "sorted({v})[0] if {v} else None", "sorted({v})[-1] if {v} else None", "sorted({v})[:2]", "sorted({v})[-2:]", "sorted({v}, key=lambda q: -q)[:2]",
             "list(tuple({v}))", "sorted(tuple({v}))", "list(list({v}))", "max(sorted({v})) if {v} else 0", "sorted({v}, reverse=True)[0] if {v} else 0",
             "1 in [1, 2, 3]", "2 in (1, 2)", "5 in [x for x in {v}]", "3 in list({v})", "3 in sorted({v})", "[*{v}]", "[*{v}, 9]", "(*{v},)", "{{**{{1: 2}}}}",
             "{{**{{1: 2}}, 3: 4}}", "list(x for x in {v})", "list([1, 2])", "dict()", "list()", "tuple()", "set() == set({v})", "dict([])", "[] + list({v})",
             "next(iter(sorted({v})), None)", "len(list({v}))", "sum([x for x in {v}])", "sum([1, 2, 3])", "sum(range(4))", "sum(x * 2 for x in range(3))",
             "sum([x * y for x, y in zip([1, 2], [3, 4])])", "list(reversed(list({v})))", "isinstance(1, (int, float))", "sorted({v})[1:] ", "min(sorted({v})) if {v} else 0"]
    lines = [f"print({d.pick(exprs).replace('{v}', v)})" for _ in range(d.int(1, 4))]
    return _wrap(d, "\n".join(lines) + "\n")


def fam_defaultdict(d):
    # F-C01-01: the dict becomes a defaultdict, whose repr differs; shown through dict() unless the finding is fixed
    SHOWG = "dict(g)" if "F-C01-01" in AVOID else "g"
    kind = d.pick(["list", "set", "count", "list_else"])
    it = d.pick(["data", "[1, 1, 2, 3, 3]", "[]", "range(4)"])
    if kind == "list":
        body = f"g = {{}}\nfor x in {it}:\n    k = x % 2\n    if k in g:\n        g[k].append(x)\n    else:\n        g[k] = [x]\nprint({SHOWG})\n"
    elif kind == "set":
        body = f"g = {{}}\nfor x in {it}:\n    k = x % 2\n    if k in g:\n        g[k].add(x)\n    else:\n        g[k] = {{x}}\nprint({{k: sorted(v) for k, v in g.items()}})\n"
    elif kind == "count":
        body = f"g = {{}}\nfor x in {it}:\n    if x in g:\n        g[x] += 1\n    else:\n        g[x] = 1\nprint({SHOWG})\n"
    else:
        body = f"g = {{}}\nfor x in {it}:\n    if x % 2 not in g:\n        g[x % 2] = []\n    g[x % 2].append(x)\nprint({SHOWG})\nprint(g == {{}}, 5 in g)\n"
    return _wrap(d, body)


def fam_boolean(d):
    e = d.pick(["v > 1 and v > 2", "v < 3 or v < 5", "v and not v", "v == 2 or v != 2", "not v > 2", "not v == 1", "not (v in data)", "v > 1 and True",
                "v == None", "v != None", "check(v) == True", "check(v) == False", "(v > 2) == True", "not not v", "v is not None and v > 0",
                "True and v", "v or False", "0 or v", "v and 1", "not (v < 2 and v > 0)", "v >= 1 and v <= 1", "v > 3 and v < 2", "v in [1, 2] and v in (2, 3)"])
    body = f"def t(v):\n    if {e}:\n        return 'y'\n    return 'n'\nfor q in [0, 1, 2, 3, 4, 7]:\n    print(t(q))\n"
    return PRELUDE + body


def fam_boolean_calls(d):
    """Boolean combinations whose operands are calls / attributes / subscripts (not plain names), from a small shared operand
    pool: what the sympy-based simplification maps to generated symbols.  The operands are pure, so reordering is invisible."""
    ops = ["p(v)", "q(v)", "r(v)", "d.get(v)", "v.real", "data[0] > v", "p(v + 1)", "flags[v % 2]"]
    a, b, c = d.pick(ops), d.pick(ops), d.pick(ops)
    e = d.pick(["({a} and {b}) or ({a} and {c})", "not ({a} and {b})", "({a} or {b}) and ({a} or {c})", "{a} and ({a} or {b})", "not (not {a} or {b})",
                "({a} and {b}) or ({a} and not {b})", "not (not {a} and not {b})", "({a} or {b}) and not {a}", "{a} or (not {a} and {b})",
                "not ({a} or {b}) or {c}", "({a} and {b} and {c}) or ({a} and {b})"]).replace("{a}", a).replace("{b}", b).replace("{c}", c)
    pre = ("def p(v):\n    return v % 2 == 0\ndef q(v):\n    return v > 2\ndef r(v):\n    return v in (1, 4)\nd = {1: 1, 3: 0}\nflags = [True, False]\n")
    use = d.pick(["def t(v):\n    if {e}:\n        return 'y'\n    return 'n'\n", "def t(v):\n    return bool({e})\n", "def t(v):\n    w = 1 if {e} else 2\n    return w\n"]).replace("{e}", e)
    return PRELUDE + pre + use + "for k in [0, 1, 2, 3, 4, 7]:\n    print(t(k))\n"


def fam_naming(d):
    body = d.pick([
        "someValue = 3\ndef ComputeThing(inputValue):\n    LocalVar = inputValue + someValue\n    return LocalVar\nprint(ComputeThing(2))\n",
        "class lower_class:\n    def Method(self):\n        return 1\nprint(lower_class().Method())\n",
        "MAXV = 3\ndef f():\n    total = 0\n    for I in [1, MAXV]:\n        total += I\n    return total\nprint(f())\n",
        "def f(argOne, ArgTwo=2):\n    return argOne + ArgTwo\nprint(f(1), f(1, ArgTwo=5), f(argOne=2))\n",
        "counter = 0\ndef bump():\n    global counter\n    counter += 1\n    return counter\nprint(bump(), bump(), counter)\n",
        "def outer():\n    innerVal = 1\n    def inner():\n        nonlocal innerVal\n        innerVal += 1\n        return innerVal\n    return inner() + innerVal\nprint(outer())\n",
        "n0 = 1\nw = 0\nwhile w < 2:\n    w += 1\n    n0 = n0 + w\nprint(n0)\n",
        "myList = [1, 2]\nfor Item in myList:\n    print(Item)\nprint(myList)\n",
        "import math as M\nprint(M.floor(2.5))\nfrom math import floor as Fl\nprint(Fl(3.5))\n",
        "def f():\n    Sum = 0\n    Max = 3\n    for i in range(Max):\n        Sum += i\n    return Sum\nprint(f(), sum([1]), max(1, 2))\n",
        "_private = 2\ndef _helper():\n    return _private\ndef public():\n    return _helper()\nprint(public())\n",
        "x = 1\nX = 2\nprint(x, X)\n",
        "value = 5\ndef f():\n    Value = 6\n    return value + Value\nprint(f())\n",
    ])
    return body


def fam_constants(d):
    pool = ["some/long/path/constant", "another fairly long literal", "k", "12345 starts with digits and is long", (10, 20, 30, 40, 50, 60, 70),
            [1.5, 2.5, 3.5, 4.5, 5.5, 6.5], "a sentence, with punctuation; and more!", "second sentence: not an identifier?", "third one (with brackets) & signs",
            ("tuple", "of", "several", "strings", "here"), {"a set", "of two long strings"} and "set members, sorted: a, b"]
    k = d.pick([1, 1, 2, 3])
    consts = []
    for _ in range(k):
        c = d.pick(pool)
        if c not in consts:
            consts.append(c)
    n = d.int(2, 7)
    counts = [n if d.chance(2) or i == 0 else d.int(2, 7) for i in range(len(consts))]  # equal counts are the interesting tie
    lines = []
    names = []
    for ci, (c, cnt) in enumerate(zip(consts, counts)):
        for i in range(cnt):
            names.append(f"v{ci}_{i}")
            lines.append(f"v{ci}_{i} = {c!r}")
    if d.chance(3):
        lines = [lines[i] for i in d.draw(st.permutations(list(range(len(lines)))))]
    lines.append("print(" + ", ".join(names) + ")")
    if d.chance(2):
        return "def f():\n" + "".join(f"    {l}\n" for l in lines) + "f()\n"
    return "\n".join(lines) + "\n"


def fam_imports(d):
    body = d.pick([
        "def f(v):\n    import math\n    return math.floor(v)\nprint(f(2.5))\n",
        "def f(v):\n    from math import ceil\n    return ceil(v)\ndef g(v):\n    from math import ceil\n    return ceil(v) + 1\nprint(f(2.5), g(1.2))\n",
        "from math import *\nprint(floor(2.5), ceil(2.5))\n",
        "from os.path import *\nprint(basename('a/b.txt'))\n",
        "import collections\nimport math\nimport os\nprint(math.floor(1.5))\n",
        "print(math.floor(2.5))\nprint(os.path.basename('x/y'))\n",
        "import re\nprint(re.sub('a', 'b', 'banana'))\nimport math\nprint(math.sqrt(4))\n",
        "from collections import OrderedDict, defaultdict\nd = defaultdict(int)\nd[1] += 1\nprint(dict(d))\n",
        "import functools, itertools\nprint(list(itertools.chain([1], [2])))\nprint(functools.reduce(lambda a, b: a + b, [1, 2, 3]))\n",
        "from math import floor as fl, ceil\nprint(fl(1.5))\n",
        "from os.path import basename, dirname, join, split, splitext\nprint(basename('a/b'), dirname('a/b'), join('a', 'b'), splitext('a.b'))\n",
        "from math import floor, ceil, sqrt, pi, e, tau\nimport os, sys, json, re\nprint(floor(1.5), ceil(1.5), sqrt(4), re.sub('a', 'b', 'a'), json.dumps(1))\n",
        "import json\nimport math\ntry:\n    import tomllib\nexcept ImportError:\n    tomllib = None\nprint(math.floor(1.5), tomllib is not None)\n",
        "import os\nimport os.path\nimport os as o\nprint(o.path.basename('a/b'), os.path.dirname('a/b'))\n",
        "from collections import abc\nimport collections.abc\nprint(isinstance([], collections.abc.Sequence), isinstance({}, abc.Mapping))\n",
    ])
    return body


def fam_strings(d):
    body = d.pick([
        "import logging\nlog = logging.getLogger('vf')\nlog.disabled = True\nv = 3\nlog.info(f'value {v}')\nlog.warning('x %s' % v)\nprint(v)\n",
        "import logging\nlogging.disable(logging.CRITICAL)\nname = 'n'\nwidth = 5\nlogging.info(f'{name:{width}} done')\nlogging.info(f'{name:>{width}} {width!r:^8}')\nlogging.debug(f'{width:.{width}f} {name}', )\nlogging.error('%s and {}'.format(1) % name)\nprint(name)\n",
        "import logging\nlogging.disable(logging.CRITICAL)\nv = 2\nlogging.warning(f'{v}' + ' tail')\nlogging.info('a {} b'.format(v))\nlogging.info(f'{v=} {v + 1} {{literal}}')\nlogging.log(10, f'{v}')\nprint(v)\n",
        "print('a\\\\d' + r'\\d', len('\\\\w'))\n",
        "name = 'w'\nprint(f'{name}')\nprint(f'plain')\nprint('{}'.format(name))\nprint('%s' % name)\n",
        "print(\"it's\", 'say \"hi\"', '''tri\nple''')\nx = \"dq\"\ny = 'sq'\nprint(x + y)\n",
        "def f():\n    '''Doc string.'''\n    'pointless string'\n    return 1\nprint(f(), f.__doc__ is not None)\n",
    ])
    return body


def fam_raise_from(d):
    body = d.pick([
        "def t(v):\n    try:\n        return data[v]\n    except IndexError:\n        raise ValueError('bad')\ntry:\n    t(9)\nexcept ValueError as e:\n    print('ve', e.args)\n",
        "def t(v):\n    try:\n        return data[v]\n    except IndexError as err:\n        raise ValueError('bad')\ntry:\n    t(9)\nexcept ValueError as e:\n    print('ve')\n",
        "def t(v):\n    try:\n        return {}[v]\n    except KeyError:\n        raise\ntry:\n    t(9)\nexcept KeyError:\n    print('ke')\n",
    ])
    return PRELUDE + body


def fam_starred(d):
    body = d.pick([
        "def f(*a):\n    return a\nprint(f(*[1, 2]), f(*(1, 2), 3), f(*data))\n",
        "print([*[1, 2], 3], (*[1], *[2]), {*[1, 2]} == {1, 2})\n",
        "a = [1, 2]\nb = [*a]\nc = (*a,)\nprint(b, c, [*a, *a])\n",
        "def f(**k):\n    return sorted(k.items())\nprint(f(**{'a': 1}), f(**{'a': 1}, b=2))\n",
        "x = {**{1: 2}}\ny = {**x, 3: 4}\nprint(x, y)\n",
    ])
    return PRELUDE + body


def fam_context_manager(d):
    body = ("import io\nclass Res:\n    def __init__(self):\n        print('open')\n    def read(self):\n        return 'data'\n    def close(self):\n        print('close')\n"
            "    def __enter__(self):\n        return self\n    def __exit__(self, *a):\n        self.close()\n")
    use = d.pick([
        "def f():\n    r = Res()\n    v = r.read()\n    r.close()\n    return v\nprint(f())\n",
        "def f():\n    with Res() as r:\n        v = r.read()\n    return v\nprint(f())\n",
        "def f():\n    s = io.StringIO('abc')\n    v = s.read()\n    s.close()\n    return v\nprint(f())\n",
    ])
    return body + use


def fam_math(d):
    body = d.pick([
        "print(sum([1, 2, 3]), sum((4, 5)), sum(range(5)), sum(range(2, 6)))\n",
        "print(sum(x for x in range(4)), sum([x * x for x in range(4)]), sum(2 * x + 1 for x in range(1, 5)))\n",
        "print(sum([x * y for x in range(3) for y in range(2)]))\nprint(len([1, 2, 3]), len(data))\n",
        ("n = 4\nprint(sum(range(n)), sum(i for i in range(n)), sum([i for i in range(1, n)]))\n" if "F-C01-03" not in AVOID
         else "n = 4\nprint(sum(range(4)), sum(i for i in range(2, 5)), len(range(n)))\n"),
        "print([x for x in range(10) if x > 4], [x for x in range(10) if x < 3 and x >= 1], {x for x in range(6) if x == 2})\n",
        "print([x for x in range(10) if {a} < x], [x for x in range(10) if {b} > x and {a} <= x], sorted({x for x in range(8) if {b} >= x}), [x for x in range(2, 9) if {a} <= x < {b}], list(x for x in range(9) if {b} == x))\n".replace("{a}", str(d.int(0, 5))).replace("{b}", str(d.int(3, 9))),
        "a = [[1, 2], [3, 4]]\nprint([[r[i] for r in a] for i in range(2)])\nprint(list(zip(*a)))\n" + ("" if "F-C01-04" in AVOID else "print(list(zip(*zip(*a))))\n"),
        "print(sum([1.5, 2.5]), sum([1, 2.0]), sum([True, 2]))\n",
    ])
    return PRELUDE + body


def fam_layout(d):
    body = d.pick([
        "x = 1\n\n\n\n\n\ny = 2\nprint(x, y)   \n\n\n\n",
        "def f(a, b, c, d, e, f, g, h):\n    return a + b + c + d + e + f + g + h\nprint(f(1111111111, 2222222222, 3333333333, 4444444444, 5555555555, 6666666666, 7777777777, 8888888888), 'a long string literal to push the line over the limit')\n",
        "if True:\n\tx = 1\n\tprint(x)\n",
        "# x = 1\n# print(x)\nvalue = 2  # trailing comment\n# def f():\n#     return 1\nprint(value)\n",
        "def f():\n    return 1\ndef g():\n    return 2\nclass K:\n    pass\nprint(f(), g())\n",
        "x = [\n    1,\n    2,\n]\nprint(x)\ny = {'a': 1,\n     'b': 2}\nprint(y)\n",
    ])
    return body


def fam_misc_rewrites(d):
    """Idioms of the rules that the other families do not reach."""
    it = d.pick(["(3, 4, 5)", "range(4)", "data", "[]"])
    body = d.pick([
        "print(list(y for y in (y for y in {it})))\nprint(sorted({{y for y in {{y for y in {it}}}}}))\nprint([y + 1 for y in [y for y in {it}]])\n",
        "import itertools\nprint(sorted(set(itertools.chain(range(3), range(2, 5)))))\nprint(list(itertools.chain([1], {it})))\nprint(tuple(itertools.chain()))\n",
        "print([*()], (*(),), [*[]], [*(), 1], {{*()}} == set(), [*{it}])\n",
        "acc = []\nfor a in range(3):\n    m = list(range(a))\n    acc.extend(m)\nprint(acc)\nq = set()\nfor a in {it}:\n    m = frozenset(range(2, a))\n    q.update(m)\nprint(sorted(q))\n",
        "print([*(x for x in {it})], (*(x for x in {it}),), {{*(x for x in {it})}} == set({it}))\n",
        "x = {{z: 21 for z in range(3)}}\nx[10] = 100\nx[11] = twice(2)\nprint(x)\ny = {{z: z for z in {it}}}\ny.update({{7: 8}})\nprint(y)\n",
        "print({{**{{}}}}, {{**{{}}, 13: 14}}, {{**{{1: 2}}, **{{3: 4}}}}, {{**{{1: 2}}, 1: 3}})\n",
        "import io\ns = io.StringIO('abc')\nprint(s.read())\ns.close()\n",
        "import re\nprint(re.findall('\\d+', '1234x23'), re.findall('\\+', '1+2'), len('a\\qb'))\n",
        "x = {{twice(z) ** 2 for z in range(3)}}\nfor zua in range(3):\n    x.add(zua - 1)\nprint(sorted(x))\n",
        ("v = None\nw = 0\nprint(v == None, v != None, w == None, (w == 0) == True, v is None)\n" if "F-C01-07" in AVOID
         else "v = None\nw = 0\nprint(v == None, v != None, w == False, (w == 0) == True, v is None)\n"),
        "def f(v):\n    if v > 1:\n        a = twice(v)\n        b = a + v\n        print(a, b, 'same tail')\n        print(b - a)\n    else:\n        a = twice(v + 1)\n        b = a + v + 1\n        print(a, b, 'same tail')\n        print(b - a)\n    return a\nprint(f(0), f(3))\n",
        "import collections\nPoint = collections.namedtuple('Point', ['x', 'y'])\nprint(Point(1, 2).x)\n",
        "# total = 0\n# for i in range(3):\n#     total += i\nvalue = 2\n# print(value)\nprint(value)  # print(value + 1)\n",
        "print(math.sqrt(4), os.path.basename('a/b'), re.sub('a', 'b', 'aa'), Path('x').name, functools.reduce(lambda a, b: a + b, [1, 2]))\n",
        "def early(v):\n    if v > 2:\n        res = 1\n    elif v > 0:\n        res = 2\n    else:\n        res = 3\n    return res\nprint(early(0), early(1), early(5))\n",
        "def pick(v):\n    if v:\n        out = True\n    else:\n        out = False\n    if v > 3:\n        big = False\n    else:\n        big = True\n    return out, big\nprint(pick(0), pick(5))\n",
        "class Res:\n    def get(self):\n        return 1\n    @staticmethod\n    def fixed():\n        return 2\n    @classmethod\n    def via(cls):\n        return cls.fixed() + 1\nprint(Res().get(), Res.fixed(), Res.via())\n",
    ]).replace("{it}", it)
    return _wrap(d, body)


def fam_loop_state(d):
    """Module-level loops whose state is read by the loop header or the else clause only."""
    body = d.pick([
        "items = [3, 1, 2, 5]\nfound = False\nwhile items and not found:\n    x = items.pop()\n    found = x == {k}\n    print(x)\nprint(len(items))\n",
        "for x in {it}:\n    last = x\n    print(x)\nelse:\n    print('else')\nprint('done')\n",
        "last = -1\nfor x in {it}:\n    last = x\nelse:\n    print(last)\n",
        "for x in [3, 1, 2]:\n    last = x * 2\n    print(x)\nelse:\n    print('last', last)\n",
        "n = 3\nwhile n:\n    n -= 1\n    seen = n * 2\nelse:\n    print('seen', seen)\n",
        "n = 0\nlimit = 3\nwhile n < limit:\n    n += 1\n    limit = limit - 1 if n == 1 else limit\n    print(n, limit)\n",
        "queue = [1, 2, 3]\ndone = 0\nwhile queue:\n    cur = queue.pop(0)\n    done = cur\n    if cur == {k}:\n        queue = []\nelse:\n    print('drained', done)\n",
        "total = 0\nfor x in {it}:\n    total += x\n    if total > 4:\n        flag = True\n        break\nelse:\n    flag = False\nprint(total, flag)\n",
        "i = 0\nstate = 'a'\nwhile state != 'c' and i < 5:\n    i += 1\n    state = 'b' if state == 'a' else 'c'\nprint(i, state)\n",
    ]).replace("{k}", str(d.int(1, 3))).replace("{it}", d.pick(["[3, 1, 2]", "[]", "data", "range(4)"]))
    if d.chance(3):
        return PRELUDE + "def main():\n" + textwrap.indent(body, "    ") + "main()\n"
    return PRELUDE + body


def fam_numpy(d):
    body = d.pick([
        "import numpy as np\na = np.array([[1, 2], [3, 4]])\nb = np.array([[5, 6], [7, 8]])\nprint(np.asarray([[sum(a[i, k] * b[k, j] for k in range(2)) for j in range(2)] for i in range(2)]).tolist())\n",
        "import numpy as np\nu = np.array([1, 2, 3])\nv = np.array([4, 5, 6])\nprint(int(sum(x * y for x, y in zip(u, v))), int(sum([u[i] * v[i] for i in range(3)])))\n",
        "import numpy as np\na = np.array([[1, 2], [3, 4]])\nprint(np.asarray([a[i] for i in range(len(a))]).tolist(), np.asarray([a[:, i] for i in range(a.shape[1])]).tolist())\n",
        "import numpy as np\na = np.array([[1, 2], [3, 4]])\nb = np.array([[0, 1], [1, 0]])\nprint(np.matmul(a.T, b.T).T.tolist(), a.T.T.tolist(), np.dot(a.T, b).tolist())\n",
        "import numpy as np\na = np.array([[1, 2], [3, 4]])\nb = np.array([[0, 1], [1, 0]])\nprint(np.asarray([[np.dot(b[:, i], a[j, :]) for i in range(b.shape[1])] for j in range(a.shape[0])]).tolist())\n",
        "import numpy as np\na = np.array([[1, 2], [3, 4], [5, 6]])\nb = np.array([[0, 1, 2], [1, 0, 3]])\nu = np.array([[np.dot(a_, b_) for a_ in a] for b_ in b.T]).T\nv = np.array([[np.dot(b_, a_) for b_ in b.T] for a_ in a])\nprint(u.tolist(), v.tolist())\n",
        "import numpy as np\na = np.array([[1, 2], [3, 4], [5, 6]])\nc = np.array([[1, 0], [2, 1]])\nv = np.array([[np.dot(c[i, :], a[j, :]) for i in range(c.shape[0])] for j in range(a.shape[0])])\nprint(v.tolist())\n",
    ])
    return body


FAMILIES = {
    "for_append": fam_for_append, "for_dict": fam_for_dict, "dict_literal": fam_dict_literal, "collection_literal": fam_collection_literal,
    "comp_then_add": fam_comp_then_add, "nested_comp": fam_nested_comp, "map_filter_lambda": fam_map_filter_lambda, "with_filter": fam_with_filter,
    "zip_enumerate": fam_zip_enumerate, "dict_items": fam_dict_items, "if_return": fam_if_return, "swap_if_else": fam_swap_if_else,
    "common_code_ifs": fam_common_code_ifs, "dead_code": fam_dead_code, "pointless": fam_pointless, "unused": fam_unused,
    "move_before_loop": fam_move_before_loop, "classes": fam_classes, "duplicates": fam_duplicates, "builtin_chains": fam_builtin_chains,
    "defaultdict": fam_defaultdict, "boolean": fam_boolean, "naming": fam_naming, "constants": fam_constants, "imports": fam_imports,
    "strings": fam_strings, "raise_from": fam_raise_from, "starred": fam_starred, "context_manager": fam_context_manager, "math": fam_math,
    "layout": fam_layout, "misc_rewrites": fam_misc_rewrites, "loop_state": fam_loop_state, "string_literals": fam_string_literals, "loop_exit": fam_loop_exit, "boolean_calls": fam_boolean_calls, "reported_shapes": fam_reported_shapes, "deep_long_lines": fam_deep_long_lines,
}
NUMPY_FAMILIES = {"numpy": fam_numpy}


@st.composite
def family_program(draw, names=None):
    name = draw(st.sampled_from(sorted(names or FAMILIES)))
    fn = FAMILIES.get(name) or NUMPY_FAMILIES[name]
    return name, fn(D(draw))
