"""Vendored corpora (committed under /verif/corpus so that checks only depend on /verif and /repo)."""
import functools
import json
import os

from vf import env


@functools.lru_cache(maxsize=None)
def repo_examples():
    with open(os.path.join(env.VERIF, "corpus", "repo_examples.json")) as fh:
        return [item["src"] for item in json.load(fh)]


@functools.lru_cache(maxsize=None)
def ascii_examples():
    return [s for s in repo_examples() if s.isascii()]


@functools.lru_cache(maxsize=None)
def realworld():
    d = os.path.join(env.VERIF, "corpus", "realworld")
    out = []
    if os.path.isdir(d):
        for name in sorted(os.listdir(d)):
            if name.endswith(".py.txt"):
                with open(os.path.join(d, name), encoding="utf-8") as fh:
                    out.append((name, fh.read()))
    return out
