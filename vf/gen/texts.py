"""Text-level generators: a zoo of every Python 3.12 construct, literal-heavy sources, odd layout, invalid
and mutated inputs, indented fragments, adversarial constant conditions."""
from __future__ import annotations

import textwrap

from hypothesis import strategies as st

from vf.gen import exprs

ZOO = [
    # odd but legal spellings: blanks before colons, NFKC-normalized identifiers, comments after else
    "def f(x):\n    if x :\n        return 1\n    else :\n        return 2\nprint(f(1))\n",
    "def fW\u00ba() -> bool:\n    if x == 1:\n        return False\n    return True\nclass \ufb01le:\n    pass\nprint(fW\u00ba)\n",
    "def f(x):\n    if x:\n        return 1\n    else:  # why\n        return 2\n\nwhile x :\n    break\nelse :\n    pass\ntry :\n    pass\nexcept E :\n    pass\nfinally :\n    pass\n",
    "x = 1\ny: int = 2\nz: list[int]\nx += 1\na = b = 3\n(c, d), e = (1, 2), 3\nf, *g = [1, 2, 3]\n*h, i = [1, 2]\n",
    "def f(a, /, b, *, c=1, **kw):\n    return a + b + c\nprint(f(1, 2, c=3))\n",
    "def g(*args, key=None):\n    '''doc'''\n    yield from args\n    yield\nprint(list(g(1, 2)))\n",
    "async def co(x):\n    await x\n    async for i in x:\n        pass\n    async with x as y:\n        pass\n    return [i async for i in x]\n",
    "class A(Base, metaclass=Meta):\n    x: int = 1\n    __slots__ = ()\n    def m(self):\n        return super().m()\n    @property\n    def p(self):\n        return 1\n    @p.setter\n    def p(self, v):\n        self._p = v\n",
    "@decorator\n@other(1, key='v')\ndef h():\n    pass\n\n@dataclass\nclass D:\n    a: int\n",
    "match command:\n    case [x, y]:\n        print(x)\n    case {'k': v, **rest}:\n        print(v)\n    case Point(x=0) | None:\n        pass\n    case str() as s if s:\n        print(s)\n    case _:\n        pass\n",
    "try:\n    risky()\nexcept (A, B) as e:\n    raise New() from e\nexcept* G:\n    pass\nelse:\n    ok()\nfinally:\n    done()\n" if False else
    "try:\n    risky()\nexcept (A, B) as e:\n    raise New() from e\nexcept C:\n    raise\nelse:\n    ok()\nfinally:\n    done()\n",
    "try:\n    pass\nexcept* ValueError as eg:\n    print(eg)\n",
    "with open(p) as f, open(q) as g:\n    pass\nwith (open(p) as f, open(q) as g):\n    pass\n",
    "for i, (a, b) in enumerate(pairs):\n    if a:\n        continue\n    elif b:\n        break\nelse:\n    print('no break')\nwhile cond():\n    pass\nelse:\n    pass\n",
    "lam = lambda x, *a, y=2, **k: (x, a, y, k)\nw = (yield_ := 3)\nif (n := len(data)) > 2:\n    print(n)\nprint([y for x in data if (y := x + 1)])\n",
    "global_var = 0\ndef outer():\n    global global_var\n    v = 1\n    def inner():\n        nonlocal v\n        v += 1\n    del v\n    return inner\n",
    "print(f'{x!r:>10} {y:{w}.{p}f} {{literal}} {a + b = }')\nprint(f\"{'nested' + f'{deep}'}\")\nprint(rb'raw\\bytes', b'bytes', r'raw\\n', u'unicode')\n",
    "s = data[1:2, ::3]\nt = data[...]\nu = data[i][j].attr.method()[0]\nv = -x ** 2 + ~y @ z // 2 % 3 << 1 >> 2 & 3 | 4 ^ 5\nw = a if b else c\nx = not a and b or c\ny = a < b <= c != d is not e in f\n",
    "type Alias = list[int]\ndef generic[T](x: T) -> T:\n    return x\nclass Box[T]:\n    pass\n",
    "import os, sys as system\nfrom . import sibling\nfrom ..pkg import mod as m, other\nfrom __future__ import annotations\n",
    "if __name__ == '__main__':\n    import argparse\n    main()\n",
    "assert x, 'message'\nassert (y)\nraise SystemExit(1)\n",
    "x = {**a, 'k': 1}\ny = [*a, *b]\nz = {*a}\nf(*args, **kwargs)\nprint(*a, sep='')\n",
    "def gen():\n    x = yield 1\n    y = yield from other()\n    return x\n",
    "x = 1; y = 2; print(x, y)\nif x: print(1)\nelse: print(2)\nclass K: pass\ndef f(): return 1\n",
    "x = (1,\n     2,\n     3)\ny = [\n    a\n    for a in x\n    if a\n]\nz = func(\n    a,\n    b=2,\n)\ntext = '''multi\nline\n'''\nlong = 'a' \\\n    'b'\n",
    "\"\"\"Module docstring.\"\"\"\n\nimport os\n\n\ndef f():\n    \"\"\"Function docstring.\n\n    More text.\n    \"\"\"\n    return os.getcwd()\n",
    "x = 0x1F + 0o17 + 0b11 + 1_000 + 1e3 + 1j + .5\ny = 'a' 'b' \"c\"\nz = None, True, False, ..., NotImplemented\n",
    "class E(Exception):\n    pass\ntry:\n    raise E('x')\nexcept E as err:\n    print(err)\n",
    "def deco(fn):\n    def wrapper(*a, **k):\n        return fn(*a, **k)\n    return wrapper\n@deco\ndef target(v=[]):\n    v.append(1)\n    return v\n",
    "for x in range(3): print(x)\nwhile False: pass\nwith a: pass\n",
    "print(1 if x else 2 if y else 3)\nprint((lambda: (yield))())\nprint(x[1:2][::2], x[:-1], x[::-1])\n",
    "# only a comment\n",
    "pass\n",
    "...\n",
    "'''just a docstring'''\n",
    "x = 1  # pyrefact: ignore\ny = 2\n",
    "import logging\nlogging.info(f'{name:{width}} done')\nlogging.info(f'{a!r:>{w}.{p}}', extra)\nlog.debug(f'{x:{y}{z}}')\nlogger.warning(f'{v:{w}}' % ())\n",
    "", "\n", "   \n\t\n", "\n\n\n\n", "    ", "\x0c\n", "#\n", "x = 1", "\ufeffx = 1\n", "x = 1\r\ny = 2\r\n", "x = 1\ry = 2\r",
]

ADVERSARIAL_CONDITIONS = [
    "1 / 0", "1 % 0", "'a' + 1", "len(5)", "[] < 1", "None > None", "exit()", "quit()", "print('x')", "input()", "10 ** 10 ** 2", "'a' * 1000",
    "int('x')", "[][0]", "{}['k']", "-'a'", "1 << -1", "0 ** -1", "float('inf') - float('inf')", "chr(-1)", "max([])", "next(iter([]))",
    "1 in 1", "[] @ []", "(1).nosuch", "'%d' % 'x'", "sum('ab')", "dict(a=1, **{'a': 2})", "sorted([1, 'a'])", "range(1, 2, 0)", "{[]: 1}",
    "'abc'.startwith('a')", "'{0.x}'.format(1)", "'a'.join(1)", "[].pop()", "{}.popitem()", "'x'.encode('nope')", "b'\\xff'.decode()", "'abc'.index('z')",
    "(1).bit_length(2)", "''.join([1])", "'{}'.format()", "'{a}'.format()", "'x'.zfill('a')", "(1.5).hex(1)", "[1].index(2)", "(1, 2).count()", "'a'.nosuch()",
    "int.__new__(list)", "eval('1/0')", "open('nonexistent_vf_file')", "__import__('nonexistent_vf_module')", "bytes(-1)", "divmod(1, 0)", "round(1, 'a')",
]
# long runs of blank lines (regular expressions over blank lines must not backtrack exponentially): before an indented line,
# before a top-level line, at the end of the file, with and without blanks on the empty lines
BLANK_RUNS = [
    "def f():\n    x = 1\n" + "\n" * n + tail
    for n in (22, 26, 30, 40, 80)
    for tail in ("    return x\n", "print(f())\n", "", "    \n", "    return x")
] + ["x = 1\n" + "   \n" * 35 + "y = 2\n", "class K:\n" + "\n" * 33 + "    a = 1\n" + "\n" * 33]
ADVERSARIAL_TEMPLATES = [
    "if {e}:\n    print(1)\nelse:\n    print(2)\n", "while {e}:\n    break\n", "assert {e}\n", "x = 1 if {e} else 2\n", "print([i for i in range(3) if {e}])\n",
    "y = ({e}) and f()\n", "y = g() or ({e})\n", "def f():\n    if {e}:\n        return 1\n    return 2\n", "if not ({e}):\n    pass\n",
    "for i in range(2):\n    if {e}:\n        continue\n    print(i)\n", "z = [{e}, 2]\n", "if x:\n    pass\nelif {e}:\n    print(3)\n",
]

LITERAL_PIECES = [
    "'tab\\there'", "'tab\there'", "\"trailing   \"", "'''multi\nline\n\n\n\nwith blanks'''", "\"\"\"tab\tin\ttriple   \n  trailing   \nend\"\"\"", "r'raw\\t\\n'", "b'bytes\\x00'",
    "f'{x}\t{y}'", "f'''multi {x}\n\tline'''", "'# not a comment'", "'quote \\' inside'", "\"mixed 'quotes'\"", "'x' * 3", "'''   '''", "'\\n\\n\\n\\n'", "''",
    "'a very long string literal that goes on and on and on and on and on and on and on and on and on and on and on and on and on'",
    "'''one\n\nblank line'''", '"""a\n\nb\n\nc"""', "u'legacy prefix'", "rb'raw bytes\\d'", "'unicode \u00e9\u4e2d\u6587 \U0001F600'", "'\\N{BULLET}'", "'line1\\\nline2'",
]


@st.composite
def literal_source(draw):
    """A source whose statements are print(<literal>) / assignments of literals, with odd layout."""
    n = draw(st.integers(1, 5))
    lines = []
    used = set()
    for i in range(n):
        lit = draw(st.sampled_from(LITERAL_PIECES))
        if lit in used:
            continue
        used.add(lit)
        form = draw(st.sampled_from(["print({})", "print({})", "v{} = {}", "print(len({}))", "data{} = [{}, 1]"]))
        if form.count("{}") == 2:
            lines.append(form.format(i, lit))
        else:
            lines.append(form.format(lit))
        if draw(st.integers(0, 3)) == 0:
            lines.append("" if draw(st.booleans()) else "   ")
        if draw(st.integers(0, 5)) == 0:
            lines.append("\n\n\n")
    src = "\n".join(lines) + ("\n" if draw(st.booleans()) else "")
    if draw(st.integers(0, 5)) == 0:
        src = "def f(x, y):\n" + textwrap.indent(src, "    " if draw(st.booleans()) else "\t") + "\n"
    return src


def mutate(draw, src):
    """Token-level damage: delete / duplicate / swap a slice, unbalance a bracket, break indentation."""
    if not src:
        return src
    k = draw(st.integers(0, 6))
    i = draw(st.integers(0, len(src) - 1))
    j = min(len(src), i + draw(st.integers(1, 12)))
    if k == 0:
        return src[:i] + src[j:]
    if k == 1:
        return src[:i] + src[i:j] + src[i:j] + src[j:]
    if k == 2:
        return src[:i] + draw(st.sampled_from(["(", ")", "[", "]", "{", "}", ":", "'", '"', "\\", "\t", "  ", "\x00", "\x0c", "\u2028", "\r"])) + src[i:]
    if k == 3:
        return src[:i]
    if k == 4:
        lines = src.splitlines(keepends=True)
        n = draw(st.integers(0, len(lines) - 1))
        lines[n] = draw(st.sampled_from(["  ", "\t", "       "])) + lines[n]
        return "".join(lines)
    if k == 5:
        return src.replace("\n", "\r\n")
    return src[:i] + draw(st.text(max_size=6)) + src[j:]


@st.composite
def invalid_source(draw, pool):
    base = draw(st.sampled_from(pool))
    if draw(st.integers(0, 4)) == 0:
        return draw(st.text(alphabet=st.characters(blacklist_categories=("Cs",)), max_size=60))
    out = base
    for _ in range(draw(st.integers(1, 3))):
        out = mutate(draw, out)
    return out


@st.composite
def indented_fragment(draw, pool):
    base = draw(st.sampled_from(pool))
    ind = draw(st.sampled_from(["    ", "        ", "  ", "\t"]))
    return textwrap.indent(base, ind)


@st.composite
def adversarial_program(draw):
    e = draw(st.sampled_from(ADVERSARIAL_CONDITIONS)) if draw(st.integers(0, 2)) else draw(exprs.deep(depth=2))
    t = draw(st.sampled_from(ADVERSARIAL_TEMPLATES))
    src = t.format(e=e)
    if draw(st.integers(0, 3)) == 0:
        src = src.rstrip("\n")
    if draw(st.integers(0, 4)) == 0:
        src = "def outer():\n" + textwrap.indent(src, "    ") + ("\n" if src.endswith("\n") else "")
    return src


def placement_metamorphs(stmt_src):
    """The same statement block as first / last statement (with and without trailing newline) and nested in each block kind."""
    b = stmt_src if stmt_src.endswith("\n") else stmt_src + "\n"
    ind = textwrap.indent(b, "    ")
    yield "first", b + "tail = 1\n"
    yield "last-nl", "head = 1\n" + b
    yield "last-no-nl", ("head = 1\n" + b).rstrip("\n")
    yield "only-no-nl", b.rstrip("\n")
    yield "in-def", "def wrapper():\n" + ind
    yield "in-def-no-nl", ("def wrapper():\n" + ind).rstrip("\n")
    yield "in-class-method", "class W:\n    def m(self):\n" + textwrap.indent(b, "        ")
    yield "in-if", "if flag:\n" + ind
    yield "in-else", "if flag:\n    pass\nelse:\n" + ind.rstrip("\n")
    yield "in-for", "for it in seq:\n" + ind
    yield "in-while", "while flag:\n" + ind + "    break\n"
    yield "in-try", "try:\n" + ind + "except Exception:\n    pass\n"
    yield "in-finally", "try:\n    pass\nfinally:\n" + ind.rstrip("\n")
    yield "in-with", "with ctx:\n" + ind
    yield "fragment", ind
