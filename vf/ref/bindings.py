"""Reference binding graph for C19: every identifier occurrence of a module mapped to the binding it refers to.

Independent of pyrefact and of `symtable`: scopes are built from the AST alone, in a traversal order that depends only
on the tree shape, so that two trees of the same shape (a rename) can be compared occurrence by occurrence.
"""
from __future__ import annotations

import ast
import builtins
import copy
import keyword

BUILTIN_NAMES = frozenset(dir(builtins))


class Scope:
    def __init__(self, kind, parent, sid):
        self.kind = kind  # module | function | class | comprehension
        self.parent = parent
        self.sid = sid
        self.locals = set()
        self.globals = set()
        self.nonlocals = set()


class Occ:
    __slots__ = ("scope", "name", "role", "node")

    def __init__(self, scope, name, role, node):
        self.scope, self.name, self.role, self.node = scope, name, role, node


class Graph:
    """occurrences: [Occ] in canonical order; binding(occ) -> hashable binding identity."""

    def __init__(self, tree):
        self.scopes = []
        self.occ = []
        self.attr_occ = []  # (name, role) of attribute / keyword identifiers, same canonical order
        module = self._new("module", None)
        self._body(tree.body, module)

    # -- construction
    def _new(self, kind, parent):
        s = Scope(kind, parent, len(self.scopes))
        self.scopes.append(s)
        return s

    def _bind(self, scope, name, role, node):
        target = scope
        if role == "walrus":
            while target.kind == "comprehension":
                target = target.parent
        if name not in target.globals and name not in target.nonlocals:
            target.locals.add(name)
        self.occ.append(Occ(target if role == "walrus" else scope, name, role, node))

    def _use(self, scope, name, node):
        self.occ.append(Occ(scope, name, "use", node))

    def _body(self, stmts, scope):
        for s in stmts:
            self._visit(s, scope)

    def _args(self, args, outer, inner):
        for d in args.defaults:
            self._visit(d, outer)
        for d in args.kw_defaults:
            if d is not None:
                self._visit(d, outer)
        for a in args.posonlyargs + args.args + ([args.vararg] if args.vararg else []) + args.kwonlyargs + ([args.kwarg] if args.kwarg else []):
            if a.annotation is not None:
                self._visit(a.annotation, outer)
            self._bind(inner, a.arg, "param", a)

    def _comprehension(self, node, scope):
        inner = self._new("comprehension", scope)
        gens = node.generators
        self._visit(gens[0].iter, scope)  # evaluated in the enclosing scope
        for k, g in enumerate(gens):
            self._visit(g.target, inner)
            if k:
                self._visit(g.iter, inner)
            for cond in g.ifs:
                self._visit(cond, inner)
        if isinstance(node, ast.DictComp):
            self._visit(node.key, inner)
            self._visit(node.value, inner)
        else:
            self._visit(node.elt, inner)

    def _visit(self, node, scope):
        if node is None:
            return
        if isinstance(node, list):
            for n in node:
                self._visit(n, scope)
            return
        if not isinstance(node, ast.AST):
            return
        if isinstance(node, ast.Name):
            if isinstance(node.ctx, (ast.Store, ast.Del)):
                self._bind(scope, node.id, "store", node)
            else:
                self._use(scope, node.id, node)
            return
        if isinstance(node, ast.NamedExpr):
            self._visit(node.value, scope)
            self._bind(scope, node.target.id, "walrus", node.target)
            return
        if isinstance(node, (ast.FunctionDef, ast.AsyncFunctionDef)):
            for d in node.decorator_list:
                self._visit(d, scope)
            if node.returns is not None:
                self._visit(node.returns, scope)
            self._bind(scope, node.name, "def", node)
            inner = self._new("function", scope)
            self._args(node.args, scope, inner)
            self._body(node.body, inner)
            return
        if isinstance(node, ast.Lambda):
            inner = self._new("function", scope)
            self._args(node.args, scope, inner)
            self._visit(node.body, inner)
            return
        if isinstance(node, ast.ClassDef):
            for d in node.decorator_list:
                self._visit(d, scope)
            for b in node.bases:
                self._visit(b, scope)
            for k in node.keywords:
                self._visit(k.value, scope)
            self._bind(scope, node.name, "class", node)
            inner = self._new("class", scope)
            self._body(node.body, inner)
            return
        if isinstance(node, (ast.ListComp, ast.SetComp, ast.GeneratorExp, ast.DictComp)):
            self._comprehension(node, scope)
            return
        if isinstance(node, (ast.Import, ast.ImportFrom)):
            for a in node.names:
                if a.name == "*":
                    continue
                self._bind(scope, a.asname or a.name.split(".")[0], "import-as" if a.asname else "import", a)
            return
        if isinstance(node, ast.Global):
            for n in node.names:
                scope.globals.add(n)
                scope.locals.discard(n)
                self.occ.append(Occ(scope, n, "global-decl", node))
            return
        if isinstance(node, ast.Nonlocal):
            for n in node.names:
                scope.nonlocals.add(n)
                scope.locals.discard(n)
                self.occ.append(Occ(scope, n, "nonlocal-decl", node))
            return
        if isinstance(node, ast.ExceptHandler):
            self._visit(node.type, scope)
            if node.name:
                self._bind(scope, node.name, "except-as", node)
            self._body(node.body, scope)
            return
        if isinstance(node, ast.Attribute):
            self._visit(node.value, scope)
            self.attr_occ.append((node.attr, "attribute"))
            return
        if isinstance(node, ast.keyword):
            if node.arg is not None:
                self.attr_occ.append((node.arg, "keyword"))
            self._visit(node.value, scope)
            return
        for _, value in ast.iter_fields(node):
            if isinstance(value, (list, ast.AST)):
                self._visit(value, scope)

    # -- resolution (after construction: declarations anywhere in a scope count for the whole scope)
    def binding(self, occ):
        s, name = occ.scope, occ.name
        if name in s.globals:
            return (0, name)
        if name in s.nonlocals:
            p = s.parent
            while p is not None:
                if p.kind in ("function", "comprehension") and name in p.locals:
                    return (p.sid, name)
                p = p.parent
            return ("unresolved-nonlocal", name)
        if name in s.locals:
            return (s.sid, name)
        p = s.parent
        while p is not None:
            if p.kind != "class":
                if name in p.globals:
                    return (0, name)
                if name in p.locals:
                    return (p.sid, name)
            p = p.parent
        return ("builtin" if name in BUILTIN_NAMES else "unbound", name)


class _Mask(ast.NodeTransformer):
    def generic_visit(self, node):
        super().generic_visit(node)
        if isinstance(node, ast.Name):
            node.id = "_"
        elif isinstance(node, (ast.FunctionDef, ast.AsyncFunctionDef, ast.ClassDef)):
            node.name = "_"
        elif isinstance(node, ast.arg):
            node.arg = "_"
        elif isinstance(node, ast.Attribute):
            node.attr = "_"
        elif isinstance(node, ast.keyword) and node.arg is not None:
            node.arg = "_"
        elif isinstance(node, ast.alias) and node.asname is not None:
            node.asname = "_"
        elif isinstance(node, (ast.Global, ast.Nonlocal)):
            node.names = ["_"] * len(node.names)
        elif isinstance(node, ast.ExceptHandler) and node.name is not None:
            node.name = "_"
        return node


def shape(tree):
    """ast.dump with every identifier masked: equal for two trees that differ only by a renaming."""
    return ast.dump(_Mask().visit(copy.deepcopy(tree)))


def compare(before_src, after_src):
    """None when the shapes differ (not a pure renaming); otherwise a dict with
    renamed: [(old, new, role)], problems: [(kind, text)] for splits / merges / invalid new names."""
    a, b = ast.parse(before_src), ast.parse(after_src)
    if shape(a) != shape(b):
        return None
    ga, gb = Graph(a), Graph(b)
    assert len(ga.occ) == len(gb.occ) and len(ga.attr_occ) == len(gb.attr_occ)
    problems, renamed = [], []
    images, back = {}, {}
    for oa, ob in zip(ga.occ, gb.occ):
        ba, bb = ga.binding(oa), gb.binding(ob)
        if oa.name != ob.name:
            renamed.append((oa.name, ob.name, oa.role))
        images.setdefault(ba, []).append((bb, oa, ob))
        back.setdefault(bb, []).append((ba, oa))
    for bb, lst in back.items():
        sources = sorted({ba for ba, _ in lst}, key=repr)
        if len(sources) > 1 and not (bb[1] == "_" and all(oa.role != "use" for _, oa in lst)):
            # (several never-read stores may share the throwaway name '_')
            line = next(getattr(oa.node, "lineno", "?") for ba, oa in lst if ba == sources[1])
            problems.append(("merge", f"bindings {sources[0]} and {sources[1]} now are one binding {bb} (line {line})"))
    for ba, lst in images.items():
        # a store whose value is never read may be moved to the throwaway name '_': a deliberate split of a dead
        # store (whether it really is dead is judged by the execution oracle); reads must stay with their binding
        kept = {bb for bb, oa, ob in lst if not (ob.name == "_" != oa.name and oa.role != "use")}
        if len(kept) > 1:
            a, b = sorted(kept, key=repr)[:2]
            line = next(getattr(oa.node, "lineno", "?") for bb, oa, ob in lst if bb == b)
            problems.append(("split", f"occurrences of one binding {ba} now refer to different bindings {a} and {b} (line {line})"))
    for (na, ra), (nb, rb) in zip(ga.attr_occ, gb.attr_occ):
        if na != nb:
            renamed.append((na, nb, ra))
    for old, new, role in renamed:
        if not new.isidentifier() or keyword.iskeyword(new):
            problems.append(("invalid-new-name", f"{old} -> {new} ({role})"))
        elif new in BUILTIN_NAMES and old not in BUILTIN_NAMES and role not in ("attribute", "keyword"):
            problems.append(("new-name-is-builtin", f"{old} -> {new} ({role})"))
    return {"renamed": renamed, "problems": problems}
