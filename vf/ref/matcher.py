"""Independent reference matcher for pyrefact's {{wildcard}} patterns (imports nothing from pyrefact).

Declarative semantics (property C12): code matches a pattern iff it is the pattern with every wildcard
replaced by some syntax tree - the same tree (compared through ast.unparse) for every occurrence of a named
wildcard, including the repetitions of a named quantified wildcard - and every ?, *, + wildcard in a list
replaced by 0..1, 0..n, 1..n elements.
"""
from __future__ import annotations

import ast
import re
import textwrap

WILD = re.compile(r"\{\{(\w+|\.\.\.)([?*+]?)\}\}")
IGNORED_FIELDS = {"ctx", "kind", "lineno", "col_offset", "end_lineno", "end_col_offset"}


class W:
    """A wildcard occurrence."""

    __slots__ = ("name", "quant")

    def __init__(self, name, quant):
        self.name = name  # None for {{...}}
        self.quant = quant  # "", "?", "*", "+"

    def __repr__(self):
        return "{{%s%s}}" % (self.name or "...", self.quant)


class Pattern:
    def __init__(self, text: str):
        self.text = text
        self.wild = {}
        idx = [0]

        def repl(m):
            key = f"vfwild{idx[0]}zz"
            idx[0] += 1
            name = None if m.group(1) == "..." else m.group(1)
            self.wild[key] = W(name, m.group(2))
            return key

        replaced = WILD.sub(repl, text)
        tree = ast.parse(textwrap.dedent(replaced))
        body = tree.body
        if not body:
            raise ValueError("empty pattern")
        if len(body) > 1:
            self.kind = "sequence"
            self.root = body
        elif isinstance(body[0], ast.Expr):
            self.kind = "expression"
            self.root = body[0].value
        else:
            self.kind = "statement"
            self.root = body[0]

    # -- helpers
    def as_wild(self, pat):
        """Wildcard for a pattern node / identifier, or None."""
        if isinstance(pat, str):
            return self.wild.get(pat)
        if isinstance(pat, ast.Name):
            return self.wild.get(pat.id)
        if isinstance(pat, ast.Expr) and isinstance(pat.value, ast.Name):
            return self.wild.get(pat.value.id)
        if isinstance(pat, ast.alias) and pat.asname is None:
            return self.wild.get(pat.name)
        return None


ANON_MATCHES_ABSENT = False


def canon(value) -> str:
    if isinstance(value, ast.AST):
        return ast.unparse(value)
    return str(value)


def _bind(w, value, env):
    if w.name is None:
        yield env
        return
    key = canon(value)
    if w.name in env:
        if env[w.name] == key:
            yield env
    else:
        new = dict(env)
        new[w.name] = key
        yield new


def match_node(p: Pattern, pat, node, env):
    """Yield every environment under which `node` is an instance of `pat`."""
    w = p.as_wild(pat)
    if w is not None and not isinstance(pat, ast.alias):
        if w.quant:
            return  # a quantified wildcard only has meaning as a list element
        if isinstance(pat, ast.Expr) and not isinstance(node, ast.stmt):
            return
        if isinstance(pat, ast.Name) and isinstance(node, (list, type(None))):
            if node is None and w.name is None and ANON_MATCHES_ABSENT:
                yield env  # C14 only: pyrefact documents {{...}} as "matches everything"; either reading is accepted there
            return  # a wildcard stands for a syntax tree, not for an absent field or a list
        yield from _bind(w, node, env)
        return
    if isinstance(pat, list):
        if not isinstance(node, list):
            return
        yield from match_list(p, pat, node, env)
        return
    if isinstance(pat, ast.AST):
        if type(node) is not type(pat):
            return
        if isinstance(pat, ast.alias):
            w = p.as_wild(pat)
            if w is not None and not w.quant:
                # `import {{x}}`: the wildcard stands for the imported name; an asname must be absent
                if node.asname is None:
                    yield from _bind(w, node.name, env)
                return
        envs = [env]
        for field in pat._fields:
            if field in IGNORED_FIELDS:
                continue
            pv = getattr(pat, field, None)
            nv = getattr(node, field, None)
            nxt = []
            for e in envs:
                nxt.extend(match_node(p, pv, nv, e))
            envs = nxt
            if not envs:
                return
        yield from envs
        return
    # identifiers, constants, None
    if isinstance(pat, str) and isinstance(node, str):
        w = p.wild.get(pat)
        if w is not None and not w.quant:
            yield from _bind(w, node, env)
            return
    if type(pat) is type(node) and pat == node:
        yield env


def _elem_quant(p, pat):
    w = p.as_wild(pat)
    if w is not None and w.quant:
        return w
    return None


def match_list(p: Pattern, pats, nodes, env, i=0, j=0):
    if i == len(pats):
        if j == len(nodes):
            yield env
        return
    pat = pats[i]
    w = _elem_quant(p, pat)
    if w is None:
        if j < len(nodes):
            for e in match_node(p, pat, nodes[j], env):
                yield from match_list(p, pats, nodes, e, i + 1, j + 1)
        return
    lo = 1 if w.quant == "+" else 0
    hi = min(1, len(nodes) - j) if w.quant == "?" else len(nodes) - j
    for count in range(lo, hi + 1):
        envs = [env]
        ok = True
        for k in range(count):
            nxt = []
            value = nodes[j + k]
            if isinstance(pat, ast.alias) and isinstance(value, ast.alias):
                value_for_bind = value.name
            else:
                value_for_bind = value
            for e in envs:
                nxt.extend(_bind(w, value_for_bind, e))
            envs = nxt
            if not envs:
                ok = False
                break
        if not ok:
            break  # a longer run contains this failing prefix
        for e in envs:
            yield from match_list(p, pats, nodes, e, i + 1, j + count)


def matches(p: Pattern, node) -> bool:
    for _ in match_node(p, p.root, node, {}):
        return True
    return False


REQUIRED_BODY_OWNERS = (ast.Module, ast.FunctionDef, ast.AsyncFunctionDef, ast.ClassDef, ast.If, ast.For, ast.While, ast.With)


def find_nodes(p: Pattern, tree):
    """All nodes of the tree matching an expression/statement pattern."""
    return [n for n in ast.walk(tree) if not isinstance(n, ast.Module) and matches(p, n)]


def find_sequences(p: Pattern, tree):
    """(required, optional) lists of node tuples for a fixed-length sequence pattern."""
    required, optional = [], []
    k = len(p.root)
    for owner in ast.walk(tree):
        for field in ("body", "orelse", "finalbody"):
            body = getattr(owner, field, None)
            if not isinstance(body, list) or not body or not isinstance(body[0], ast.stmt):
                continue
            for s in range(0, len(body) - k + 1):
                window = body[s:s + k]
                env_list = [{}]
                for pat, node in zip(p.root, window):
                    nxt = []
                    for e in env_list:
                        nxt.extend(match_node(p, pat, node, e))
                    env_list = nxt
                    if not env_list:
                        break
                if env_list:
                    if isinstance(owner, REQUIRED_BODY_OWNERS) and field in ("body", "orelse"):
                        required.append(tuple(window))
                    else:
                        optional.append(tuple(window))
        for h in getattr(owner, "handlers", []) or []:
            pass  # handler bodies are reached through ast.walk(owner) as ExceptHandler.body (optional)
    return required, optional


# ---------------------------------------------------------------- second oracle for flat lists

def regex_for(symbols):
    """symbols: list of ("lit", ch) | ("wild", name|None, quant). Returns a compiled regex or None when the
    template uses a named quantified wildcard (no regular translation with back-references is attempted)."""
    out = []
    seen = set()
    for s in symbols:
        if s[0] == "lit":
            out.append(re.escape(s[1]))
            continue
        _, name, quant = s
        if name is None:
            out.append("." + quant)
        elif quant:
            return None
        elif name in seen:
            out.append(f"(?P={name})")
        else:
            seen.add(name)
            out.append(f"(?P<{name}>.)")
    return re.compile("".join(out) + r"\Z", re.S)
