"""C09 - repeated formatting converges within five applications and never oscillates."""
from __future__ import annotations

import time

from hypothesis import strategies as st

from vf import env, hyp, progcheck
from vf.acc import Acc
from vf.gen import corpus, families, programs, texts
from vf.checks.c04 import options

ID = "C09"
LEVEL = "exploration"
RULE = (
    "inputs: rule families (all placements), compositions, grammar programs, the syntax zoo, the repository's examples and (thorough) "
    "vendored stdlib modules x drawn option combinations; the sequence x0=x, x(i+1)=format_code(x(i)) is computed up to x6. Oracle: some "
    "k<=5 has x(k+1)==x(k), one further application is byte-identical, and no x(j)==x(i) with j>i+1 before the fixed point (cycle). "
    "Non-trivial = x1 != x0; distinct by (input, options); histogram of k."
)
ASSUMPTIONS = ["caches are cleared between applications, so each application is a function of its input text alone (history effects are C05)"]
EXHAUSTIVE = {"quick": False, "thorough": False}


def long_assign_return_chain(case):
    """F-C09-02: a function ending in 'return xK' after a chain of more than 25 single-use assignments xi = x(i-1)."""
    import ast
    try:
        tree = ast.parse(case.get("src", ""))
    except SyntaxError:
        return False
    for fn in ast.walk(tree):
        if isinstance(fn, (ast.FunctionDef, ast.AsyncFunctionDef)):
            chain = 0
            for stmt in fn.body:
                if isinstance(stmt, ast.Assign) and len(stmt.targets) == 1 and isinstance(stmt.targets[0], ast.Name) and isinstance(stmt.value, ast.Name):
                    chain += 1
            if chain > 25 and isinstance(fn.body[-1], ast.Return):
                return True
    return False


PREDICATES = {"long_assign_return_chain": long_assign_return_chain}


def evaluate(case, info=None):
    kw = progcheck.fmt_opts(case.get("opts"))
    fmt = env.mod("main").format_code
    seq = [case["src"]]
    fails = []
    if case.get("warm_width"):
        # an earlier call of the same process on the same text with another line length: whatever it leaves behind
        # (beyond the lru caches, which are cleared below) must not keep the later applications from settling
        progcheck.run_tool(fmt, case["src"], **dict(kw, max_line_length=case["warm_width"]))
    for i in range(7):
        env.clear_caches()
        status, out, _ = progcheck.run_tool(fmt, seq[-1], **kw)
        if status != "ok" or not isinstance(out, str):
            if info is not None:
                info["status"] = "tool-" + status
            return []  # crashes and hangs are C04's business
        if out == seq[-1]:
            k = len(seq) - 1
            if info is not None:
                info["k"] = k
            if k > 5:
                fails.append({"bucket": "fixed-point-after-more-than-5", "case": case, "detail": f"needed {k} applications"})
            env.clear_caches()
            status, again, _ = progcheck.run_tool(fmt, out, **kw)
            if status == "ok" and again != out:
                fails.append({"bucket": "fixed-point-not-stable", "case": case, "detail": f"--- x{k}\n{out}\n--- next\n{again}"})
            return fails
        if out in seq:
            j = seq.index(out)
            fails.append({"bucket": f"cycle-of-length-{len(seq) - j}", "case": case,
                          "detail": f"x{len(seq)} == x{j}\n--- x{j}\n{out}\n--- x{len(seq) - 1}\n{seq[-1]}"})
            if info is not None:
                info["k"] = -1
            return fails
        seq.append(out)
    if info is not None:
        info["k"] = 99
    import difflib
    d = "".join(difflib.unified_diff(seq[-2].splitlines(True), seq[-1].splitlines(True), "x5", "x6"))
    fails.append({"bucket": "no-fixed-point-within-6", "case": case, "detail": f"still changing after 6 applications\n{d[:1500]}"})
    return fails


def plan(tier, seed):
    nsh = 16
    q = tier == "quick"
    specs = []
    for s in range(nsh):
        specs.append({"kind": "generated", "n": (2200 if q else 20000) // nsh, "seed": env.subseed(seed, ID, "gen", s), "budget_s": 90 if q else 1500})
        specs.append({"kind": "corpus", "shard": s, "nshards": nsh, "stride": 2 if q else 1, "offset": seed % 2, "real": 0 if q else 45,
                      "budget_s": 80 if q else 1500})
    return specs


def run_shard(spec):
    acc = Acc()
    t0 = time.time()

    def one(src, opts, label, warm=None):
        case = {"src": src, "opts": opts}
        if warm:
            case["warm_width"] = warm
        info = {}
        fails = evaluate(case, info)
        k = info.get("k")
        acc.case(case, k is not None and k != 0, [f"k={k}" if k is not None else "tool-failed", f"src:{label}"] + (["warmed-with-other-width"] if warm else []),
                 sample={"src": src[:300], "opts": opts, "applications_to_fixed_point": k})
        acc.fails(fails)

    if spec["kind"] == "corpus":
        default = {"safe": False, "keep_imports": False, "preserve": [], "max_line_length": 100}
        pool = list(corpus.repo_examples()) + list(texts.ZOO)
        for idx, src in enumerate(pool):
            if idx % spec["nshards"] != spec["shard"] or (idx // spec["nshards"]) % spec["stride"] != spec["offset"] % spec["stride"]:
                continue
            one(src, default if idx % 2 else dict(default, safe=True), "corpus")
            if time.time() - t0 > spec["budget_s"]:
                acc.budget_exhausted = True
                break
        for idx, (name, src) in enumerate(corpus.realworld()[: spec["real"]]):
            if idx % spec["nshards"] == spec["shard"]:
                one(src, default, "realworld")
        return acc

    def go(data):
        kind = data.draw(st.sampled_from(["family", "family", "grammar", "compose"]))
        if kind == "family":
            label, src = data.draw(families.family_program())
        elif kind == "grammar":
            label, src = "grammar", data.draw(programs.programs())
        else:
            from vf.checks.c01 import compose
            from vf import known_shapes
            label, src = compose(data.draw(st.lists(families.family_program(names=known_shapes.COMPOSABLE), min_size=2, max_size=3)))
        opts = data.draw(options())
        warm = data.draw(st.sampled_from([None, None, 60, 79, 100, 120]))
        one(src, opts, label.split("+")[0] if kind != "compose" else "compose", warm if warm != opts.get("max_line_length") else None)

    hyp.run(st.data(), go, spec["n"], spec["seed"], spec["budget_s"], acc, chunk=20)
    return acc


def shrink(failure):
    bucket = failure["bucket"]

    def still(c):
        return any(f["bucket"] == bucket for f in evaluate(c))

    best = progcheck.shrink_program(failure["case"], still, budget=60)
    fs = [f for f in evaluate(best) if f["bucket"] == bucket]
    return {"case": best, "detail": fs[0]["detail"] if fs else failure.get("detail", "")}
