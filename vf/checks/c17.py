"""C17 - boolean, comparison and range rewrites are logically equivalent.

Every formula over comparisons of integer variables with small constants is placed in the contexts the
rewriting rules look at (return F, if F: return .., branch swapping, early continue, comprehension filter over
a range, sums over ranges) and evaluated for every integer valuation of a box that strictly contains all
constants, before and after each rule and after format_code.
"""
from __future__ import annotations

import ast
import itertools
import time
import warnings

from hypothesis import HealthCheck, Phase, given, seed as hseed, settings, strategies as st

from vf import env, hyp
from vf.acc import Acc

ID = "C17"
LEVEL = "exploration"
BOX = list(range(-2, 7))
OPS = ["<", "<=", ">", ">=", "==", "!="]
CONSTS = [0, 1, 2, 3]
RULE = (
    "formulas: atoms x~c, c~x (c in 0..3), y~c, x~y with ~ in {<,<=,>,>=,==,!=}, combined by not/and/or up to 3 atoms and "
    "chained comparisons (bounded enumeration: all 1- and 2-atom formulas; 3-atom formulas by seeded stride in quick, complete over "
    "x-atoms in thorough) plus Hypothesis-random formulas of <=5 atoms; each formula in 10 contexts x 11 rules + format_code; "
    "range comprehensions [i for i in range(a[,b[,s]]) if G] and sums over ranges with constant and parameter bounds. Oracle: "
    "the function value for every valuation of [-2,6]^2. Non-trivial = some rule changed the function text; distinct by (context, formula)."
)
ASSUMPTIONS = [
    "integer semantics only; values compared with == (6 == 6.0), numeric type is left to C01/C02",
    "sums over ranges are compared on valuations where the range is not empty (known finding F-C17-01 covers empty ranges)",
]
EXHAUSTIVE = {"quick": False, "thorough": False}


def atoms(var="x", consts=CONSTS):
    out = []
    for op in OPS:
        for c in consts:
            out.append(f"{var} {op} {c}")
            out.append(f"{c} {op} {var}")
    return out


X_ATOMS = atoms("x")
Y_ATOMS = [f"y {op} {c}" for op in OPS for c in (1, 2)]
XY_ATOMS = [f"x {op} y" for op in OPS]
ALL_ATOMS = X_ATOMS + Y_ATOMS + XY_ATOMS


def formulas_small():
    for a in ALL_ATOMS:
        yield a
        yield f"not {a}"
        yield f"not (not {a})"
    for a, b in itertools.product(ALL_ATOMS, ALL_ATOMS):
        yield f"{a} and {b}"
        yield f"{a} or {b}"
    for a, b in itertools.product(X_ATOMS, X_ATOMS + XY_ATOMS[:2]):
        yield f"not ({a} and {b})"
        yield f"not ({a} or {b})"
        yield f"not {a} and {b}"
        yield f"{a} or not {b}"
    for c1, o1, o2, c2 in itertools.product(CONSTS, OPS, OPS, CONSTS):
        yield f"{c1} {o1} x {o2} {c2}"
        yield f"not {c1} {o1} x {o2} {c2}"


def formulas_three(pool):
    for a, b, c in itertools.product(pool, pool, pool):
        yield f"{a} and {b} and {c}"
        yield f"{a} or {b} or {c}"
        yield f"({a} and {b}) or {c}"
        yield f"({a} or {b}) and {c}"
        yield f"not ({a} and {b}) or {c}"


@st.composite
def random_formula(draw, depth=3):
    if depth == 0 or draw(st.integers(0, 3)) == 0:
        return draw(st.sampled_from(ALL_ATOMS))
    k = draw(st.sampled_from(["and", "or", "not", "and", "or", "chain"]))
    if k == "not":
        return f"not ({draw(random_formula(depth=depth - 1))})"
    if k == "chain":
        v = draw(st.sampled_from(["x", "y"]))
        return f"{draw(st.sampled_from(CONSTS))} {draw(st.sampled_from(OPS))} {v} {draw(st.sampled_from(OPS))} {draw(st.sampled_from(CONSTS + ['y']))}"
    n = draw(st.integers(2, 3))
    return f" {k} ".join(f"({draw(random_formula(depth=depth - 1))})" for _ in range(n))


CONTEXTS = {
    "return": "def f(x, y):\n    return {F}\n",
    "ifret": "def f(x, y):\n    if {F}:\n        return True\n    return False\n",
    "ifret_neg": "def f(x, y):\n    if {F}:\n        return False\n    return True\n",
    "ifassign": "def f(x, y):\n    if {F}:\n        v = True\n    else:\n        v = False\n    return v\n",
    "ifassign_neg": "def f(x, y):\n    if {F}:\n        v = False\n    else:\n        v = True\n    return v\n",
    "swap_pass": "def f(x, y):\n    if {F}:\n        pass\n    else:\n        return 1\n    return 2\n",
    "swap_block": "def f(x, y):\n    r = 0\n    if {F}:\n        r += 1\n        r += 2\n    else:\n        return -1\n    return r\n",
    "continue": ("def f(x, y):\n    r = 0\n    for i in range(2):\n        r += 10\n        if {F}:\n            r += 1\n            r += 2\n"
                 "            r += 3\n            r += 4\n            r += 5\n            r += i\n    return r\n"),
    "while": "def f(x, y):\n    n = 0\n    while not ({F}) and n < 3:\n        n += 1\n        x += 1\n    return (n, x)\n",
    "comp": "def f(x, y):\n    return [x for x in range(-2, 7) if {F}]\n",
}
RULES = [
    ("symbolic_math", "simplify_boolean_expressions"), ("symbolic_math", "simplify_boolean_expressions_symmath"),
    ("fixes", "replace_negated_numeric_comparison"), ("fixes", "remove_redundant_boolop_values"), ("fixes", "swap_if_else"),
    ("fixes", "early_continue"), ("fixes", "early_return"), ("fixes", "fix_if_return"), ("fixes", "fix_if_assign"),
    ("symbolic_math", "simplify_constrained_range"), ("fixes", "remove_dead_ifs"), ("main", "format_code"),
]
VALS = [(x, y) for x in BOX for y in BOX]


def table(src, vals=VALS):
    """Function table of f over the box (exceptions are values too)."""
    g = {}
    with warnings.catch_warnings():
        warnings.simplefilter("ignore")
        try:
            exec(compile(src, "<c17>", "exec"), g)
        except Exception as exc:
            return ("compile/def error", repr(exc))
    f = g.get("f") or next((v for k, v in g.items() if callable(v) and getattr(v, "__name__", "") in ("f", "_f")), None)
    if f is None:
        return ("no function f",)
    out = []
    for x, y in vals:
        try:
            v = f(x, y)
            if hasattr(v, "__next__"):
                v = list(v)
            out.append(v)
        except Exception as exc:
            out.append("exc:" + type(exc).__name__)
    return out


def apply_rule(modname, fname, src):
    fn = getattr(env.mod(modname), fname)
    if fname == "format_code":
        return fn(src, preserve=frozenset({"f"}))
    return fn(src)


def eval_source(case, src, vals=VALS, rules=RULES):
    fails = []
    fired = []
    base = table(src, vals)
    if isinstance(base, tuple):
        raise env.HarnessError(f"bad context program: {base}\n{src}")
    for modname, fname in rules:
        env.clear_caches()
        try:
            with env.alarm(120):
                new = apply_rule(modname, fname, src)
        except env.CaseTimeout:
            fails.append({"bucket": f"{fname}:hang", "case": case, "detail": src})
            continue
        except Exception as exc:
            fails.append({"bucket": f"{fname}:crash:{env.exc_bucket(exc)}", "case": case, "detail": f"{exc!r}\n{src}"})
            continue
        if new == src:
            continue
        fired.append(fname)
        after = table(new, vals)
        if isinstance(after, tuple):
            fails.append({"bucket": f"{fname}:broken-output:{case['ctx']}", "case": case, "detail": f"{after}\n--- from\n{src}\n--- to\n{new}"})
            continue
        bad = [(v, a, b) for v, a, b in zip(vals, base, after) if not _eq(a, b)]
        if bad:
            v, a, b = bad[0]
            kind = "not-equivalent"
            if all(isinstance(p, (int, float)) and isinstance(q, (int, float)) and abs(p - q) <= 1e-9 * max(1, abs(p))
                   for _, p, q in bad):
                kind = "float-rounding"  # a closed form evaluated in floating point: its own bucket (F-C17-02)
            fails.append({"bucket": f"{fname}:{kind}:{case['ctx']}", "case": case,
                          "detail": f"{len(bad)}/{len(vals)} valuations differ, e.g. (x, y)={v}: {a!r} -> {b!r}\n--- from\n{src}\n--- to\n{new}"})
    return fails, fired


def _eq(a, b):
    try:
        return bool(a == b) and (isinstance(a, str) == isinstance(b, str))
    except Exception:
        return False


def sum_all_valuations(case):
    return case.get("kind") == "sum" and bool(case.get("all_valuations"))


def is_sum(case):
    return case.get("kind") == "sum"


PREDICATES = {"sum_all_valuations": sum_all_valuations, "is_sum": is_sum}


def source_of(case):
    if case["kind"] == "formula":
        return CONTEXTS[case["ctx"]].replace("{F}", case["f"])
    return case["src"]


def valuations_of(case):
    if case["kind"] == "sum":
        # non-empty ranges only (F-C17-01): the case carries the predicate as python source over x, y
        pred = eval("lambda x, y: " + case.get("nonempty", "True"))
        return [v for v in VALS if pred(*v)]
    return VALS


def evaluate(case):
    vals = valuations_of(case) if not case.get("all_valuations") else VALS
    rules = RULES if case["kind"] == "formula" or case["kind"] == "range" else SUM_RULES
    return eval_source(case, source_of(case), vals, rules)[0]


# ------------------------------------------------------------------ ranges and sums

SUM_RULES = [("symbolic_math", "simplify_math_iterators"), ("fixes", "inline_math_comprehensions"), ("main", "format_code")]


def range_cases():
    """[i for i in range(a[,b[,s]]) if G] with constant bounds and 1-2 constant bound filters."""
    filt = [f"i {op} {c}" for op in OPS[:5] for c in (-1, 0, 2, 5)] + [f"{c} {op} i" for op in OPS[:5] for c in (0, 3)]
    rngs = [f"range({b})" for b in (-1, 0, 3, 6)] + [f"range({a}, {b})" for a in (-2, 0, 2) for b in (0, 3, 6)] + [
        f"range({a}, {b}, {s})" for a in (-2, 1) for b in (6,) for s in (1, 2, 3)] + ["range(6, -2, -1)", "range(5, 0, -2)"]
    for kind in ("[{e} for i in {r} if {g}]", "{{{e} for i in {r} if {g}}}", "list({e} for i in {r} if {g})"):
        for r in rngs:
            for g in filt:
                yield kind.format(e="i", r=r, g=g)
            for g1, g2 in itertools.product(filt[::3], filt[1::4]):
                yield kind.format(e="i", r=r, g=f"{g1} and {g2}")
                yield kind.format(e="i", r=r, g=f"{g1} if {g2}".replace(" if ", " if ")) if False else kind.format(e="i", r=r, g=f"{g1}")
    # symbolic bounds
    for r in ("range(x)", "range(x, y)", "range(0, y)", "range(x, 6)", "range(x, y, 2)"):
        for g in filt[::2]:
            yield f"[i for i in {r} if {g}]"


def sum_cases():
    out = []
    for a, b, ne in [("x", None, "x > 0"), ("0", "x", "x > 0"), ("1", "x", "x > 1"), ("x", "y", "y > x"), ("2", "6", "True"),
                     ("x", "6", "6 > x"), ("-2", "y", "y > -2"), ("3", "1", "False"), ("0", "0", "False"),
                     ("-3", "0", "True"), ("x", "0", "0 > x"), ("-2", "1", "True"), ("-5", "-1", "True")]:
        r = f"range({a})" if b is None else f"range({a}, {b})"
        out.append((f"sum({r})", ne))
        out.append((f"sum(i for i in {r})", ne))
        out.append((f"sum([i * i for i in {r}])", ne))
        out.append((f"sum(2 * i + 1 for i in {r})", ne))
        out.append((f"sum(i + y for i in {r})", ne))
        out.append((f"sum(i * x for i in {r})", ne))
        out.append((f"sum([1 for i in {r}])", ne))
        out.append((f"len([i for i in {r}])", ne))
    for r, ne in [("range(0, x, 2)", "x > 0"), ("range(1, 6, 2)", "True"), ("range(x, 6, 3)", "6 > x"), ("range(10, 20, 2)", "True"), ("range(1, 11, 5)", "True"),
                  ("range(0, 9, 3)", "True"), ("range(0, 6, 2)", "True"), ("range(2, 3, 7)", "True"), ("range(-4, 0, 2)", "True"), ("range(-3, 6, 3)", "True")]:
        out.append((f"sum([i * i for i in {r}])", ne))
        out.append((f"sum({r})", ne))
        out.append((f"sum(i for i in {r})", ne))
    for c in ("[1, 2, 3]", "(1, 2, 3)", "[x, y, 3]", "(x, x)", "[x * 2, y - 1]", "[1, -2]", "[x]", "[-x, x]"):
        out.append((f"sum({c})", "True"))
        out.append((f"len({c})", "True"))
    for c in ("[1, 2]", "(x, y)"):
        out.append((f"sum(i * 2 for i in {c})", "True"))
        out.append((f"sum([i + x for i in {c}])", "True"))
    return out


# ------------------------------------------------------------------ plan / shards

def plan(tier, seed):
    nsh = 16
    specs = []
    for s in range(nsh):
        specs.append({"kind": "small", "shard": s, "nshards": nsh, "stride": 12 if tier == "quick" else 1, "offset": seed % 12,
                      "budget_s": 80 if tier == "quick" else 1500})
        specs.append({"kind": "three", "shard": s, "nshards": nsh, "stride": 1800 if tier == "quick" else 40, "offset": seed,
                      "budget_s": 60 if tier == "quick" else 1500})
        specs.append({"kind": "random", "shard": s, "n": (500 if tier == "quick" else 15000) // nsh, "seed": env.subseed(seed, ID, "rnd", s),
                      "budget_s": 60 if tier == "quick" else 900})
        specs.append({"kind": "ranges", "shard": s, "nshards": nsh, "stride": 6 if tier == "quick" else 1, "offset": seed % 6,
                      "budget_s": 60 if tier == "quick" else 900})
    return specs


def ctx_for(idx, seed_off):
    names = sorted(CONTEXTS)
    return names[(idx + seed_off) % len(names)]


def run_shard(spec):
    acc = Acc()
    t0 = time.time()

    def one(case):
        vals = valuations_of(case)
        rules = RULES if case["kind"] in ("formula", "range") else SUM_RULES
        with warnings.catch_warnings():
            warnings.simplefilter("ignore")
            fails, fired = eval_source(case, source_of(case), vals, rules)
        acc.case(case, bool(fired), [f"fired:{r}" for r in fired] + [f"ctx:{case.get('ctx', case['kind'])}"],
                 sample=source_of(case))
        acc.fails(fails)

    def over(gen, stride, offset, all_ctx):
        for idx, f in enumerate(gen):
            if idx % spec["nshards"] != spec["shard"]:
                continue
            j = idx // spec["nshards"]
            if stride > 1 and j % stride != offset % stride:
                continue
            ctxs = sorted(CONTEXTS) if all_ctx else [ctx_for(j, offset), "return"]
            for ctx in dict.fromkeys(ctxs):
                one({"kind": "formula", "ctx": ctx, "f": f})
            if time.time() - t0 > spec["budget_s"]:
                acc.budget_exhausted = True
                break

    if spec["kind"] == "small":
        over(formulas_small(), spec["stride"], spec["offset"], all_ctx=False)
    elif spec["kind"] == "three":
        over(formulas_three(X_ATOMS + XY_ATOMS[:2]), spec["stride"], spec["offset"], all_ctx=False)
    elif spec["kind"] == "ranges":
        for idx, r in enumerate(range_cases()):
            if idx % spec["nshards"] != spec["shard"] or (idx // spec["nshards"]) % spec["stride"] != spec["offset"] % spec["stride"]:
                continue
            one({"kind": "range", "ctx": "range", "src": f"def f(x, y):\n    return {r}\n"})
            if time.time() - t0 > spec["budget_s"]:
                acc.budget_exhausted = True
                break
        for idx, (e, ne) in enumerate(sum_cases()):
            if idx % spec["nshards"] != spec["shard"]:
                continue
            case = {"kind": "sum", "ctx": "sum", "src": f"def f(x, y):\n    return {e}\n", "nonempty": ne}
            nv = len(valuations_of(case))
            acc.excluded["F-C17-01"] += len(VALS) - nv
            if nv:
                one(case)
    else:
        hyp.run(st.tuples(random_formula(), st.sampled_from(sorted(CONTEXTS))),
                lambda fc: one({"kind": "formula", "ctx": fc[1], "f": fc[0]}), spec["n"], spec["seed"], spec["budget_s"], acc, chunk=10)
    return acc


def health(merged, tier):
    msgs = []
    for r in ("simplify_boolean_expressions", "simplify_boolean_expressions_symmath", "replace_negated_numeric_comparison",
              "swap_if_else", "fix_if_return", "fix_if_assign", "simplify_constrained_range", "format_code"):
        if merged.hist.get("fired:" + r, 0) < 20:
            msgs.append(f"rule {r} fired only {merged.hist.get('fired:' + r, 0)} times")
    return msgs
