"""C05 - formatting is a pure function of its input (history independence; caches stay faithful)."""
from __future__ import annotations

import ast
import dataclasses
import os
import pickle
import struct
import time
import warnings

from hypothesis import strategies as st

from vf import env, hyp, progcheck, trace
from vf.acc import Acc
from vf.gen import families, programs

ID = "C05"
LEVEL = "exploration"
RULE = (
    "histories: sequences of 3-10 calls in ONE process without clearing caches, over a pool of 2-3 inputs per history (cache-sensitive rule "
    "families: classes with unused self/cls and static methods, reversed(sorted()), nested / merged comprehensions, hoistable loop "
    "assignments, common code in if/else, dead comprehension conditions, duplicate imports, dict keys/items loops; plus grammar programs): "
    "format_code(input, options), rule(input) for any registered rule, pattern calls (finditer / findall / sub / search / compile) with derived "
    "patterns, a synthetic @processing.fix rule whose result is invalid and rolled back, the same input under other options, and repeats. "
    "Oracle (i): every call's result equals the result of the same call in a FRESH process (a grandchild forked from a zygote that imported "
    "pyrefact and never called it), and identical calls inside one history agree; (ii) after every step every tree handed out by core.parse "
    "must dump (with attributes) exactly like ast.parse(source), and every object handed out by core.compile_template must be structurally "
    "equal to a fresh compile. Non-trivial = a history with >=2 steps where an earlier step changed its input and a later step queries a text "
    "whose parse-cache key was already used; distinct by history."
)
ASSUMPTIONS = [
    "fork() of a never-used zygote stands for 'fresh process' (same interpreter, same hash seed; other seeds are C06)",
    "the cache invariant sees the objects handed out by core.parse and core.compile_template; other caches are covered through oracle (i)",
]
EXHAUSTIVE = {"quick": False, "thorough": False}
SENSITIVE = ["classes", "builtin_chains", "nested_comp", "move_before_loop", "common_code_ifs", "dead_code", "duplicates", "dict_items", "misc_rewrites",
             "unused", "for_append", "zip_enumerate", "swap_if_else", "imports", "constants", "boolean_calls", "boolean", "deep_long_lines", "layout"]


# ------------------------------------------------------------------ performing a call

def perform(call):
    """call = dict(kind, ...). Returns a picklable result (str / list / repr of exception)."""
    main = env.mod("main")
    kind = call["kind"]
    try:
        with warnings.catch_warnings():
            warnings.simplefilter("ignore")
            if kind == "format":
                return main.format_code(call["src"], **progcheck.fmt_opts(call.get("opts")))
            if kind == "rule":
                fn = getattr(env.mod(call["rule"][0]), call["rule"][1])
                kwargs = {}
                inner = getattr(fn, "_fix_func", fn)
                code = getattr(inner, "__code__", None)
                if code is not None and "preserve" in code.co_varnames[: code.co_argcount + code.co_kwonlyargcount]:
                    kwargs["preserve"] = frozenset(call.get("preserve", ()))
                if call["rule"][1] == "overused_constant":
                    kwargs["root_is_static"] = True
                return fn(call["src"], **kwargs)
            if kind == "pattern":
                pm = env.mod("pattern_matching")
                api = call["api"]
                if api == "findall":
                    return pm.findall(call["pattern"], call["src"])
                if api == "finditer":
                    return [tuple(m.span) for m in pm.finditer(call["pattern"], call["src"])]
                if api == "search":
                    m = pm.search(call["pattern"], call["src"])
                    return m and tuple(m.span)
                if api == "sub":
                    return pm.sub(call["pattern"], call["repl"], call["src"])
                if api == "compile":
                    return structure(pm.compile(call["pattern"]))
            if kind == "rejected":
                processing = env.mod("processing")
                core = env.mod("core")

                @processing.fix
                def synthetic_invalid(source):
                    root = core.parse(source)
                    if root.body:
                        yield root.body[0], "vf_broken("

                return synthetic_invalid(call["src"])
    except env.CaseTimeout:
        raise
    except BaseException as exc:
        return "EXC:" + type(exc).__name__
    raise ValueError(kind)


def structure(obj, depth=0):
    """Comparable structure of templates (ASTs, Wildcards, lists, tuples, sets, types)."""
    if depth > 60:
        return "..."
    if isinstance(obj, ast.AST):
        fields = sorted((k, structure(v, depth + 1)) for k, v in vars(obj).items() if k not in ("lineno", "col_offset", "end_lineno", "end_col_offset"))
        return (type(obj).__name__, tuple(fields))
    if dataclasses.is_dataclass(obj) and not isinstance(obj, type):
        return (type(obj).__name__, tuple((f.name, structure(getattr(obj, f.name), depth + 1)) for f in dataclasses.fields(obj)))
    if isinstance(obj, (list, tuple)):
        return (type(obj).__name__, tuple(structure(x, depth + 1) for x in obj))
    if isinstance(obj, (set, frozenset)):
        return ("set", tuple(sorted((repr(structure(x, depth + 1)) for x in obj))))
    if isinstance(obj, type):
        return ("type", obj.__name__)
    return repr(obj)


# ------------------------------------------------------------------ zygote (fresh-process oracle)

class Zygote:
    """A child forked before this shard calls pyrefact; it forks one grandchild per request and never runs a call itself."""

    def __init__(self):
        self.req_r, self.req_w = os.pipe()
        self.res_r, self.res_w = os.pipe()
        self.pid = os.fork()
        if self.pid == 0:
            os.close(self.req_w)
            os.close(self.res_r)
            self._serve()
            os._exit(0)
        os.close(self.req_r)
        os.close(self.res_w)
        self.memo = {}

    @staticmethod
    def _read_exact(fd, n):
        buf = b""
        while len(buf) < n:
            chunk = os.read(fd, n - len(buf))
            if not chunk:
                return None
            buf += chunk
        return buf

    def _serve(self):
        while True:
            head = self._read_exact(self.req_r, 4)
            if head is None:
                return
            (n,) = struct.unpack("<I", head)
            call = pickle.loads(self._read_exact(self.req_r, n))
            pid = os.fork()
            if pid == 0:
                try:
                    progcheck.GUARD_S = 120
                    with env.alarm(120):
                        res = perform(call)
                except BaseException as exc:
                    res = "EXC:" + type(exc).__name__
                data = pickle.dumps(res)
                os.write(self.res_w, struct.pack("<I", len(data)) + data)
                os._exit(0)
            os.waitpid(pid, 0)

    def fresh(self, call):
        key = env.h(call)
        if key in self.memo:
            return self.memo[key]
        data = pickle.dumps(call)
        os.write(self.req_w, struct.pack("<I", len(data)) + data)
        head = self._read_exact(self.res_r, 4)
        if head is None:
            raise env.HarnessError("zygote died")
        (n,) = struct.unpack("<I", head)
        res = pickle.loads(self._read_exact(self.res_r, n))
        self.memo[key] = res
        return res

    def close(self):
        try:
            os.close(self.req_w)
            os.close(self.res_r)
            os.waitpid(self.pid, 0)
        except OSError:
            pass


# ------------------------------------------------------------------ cache spies

class Spies:
    def __init__(self):
        self.core = env.mod("core")
        self.trees = {}
        self.templates = {}
        self.orig_parse = self.core.parse
        self.orig_compile = self.core.compile_template

    def __enter__(self):
        core = self.core

        def parse(source_code):
            tree = self.orig_parse(source_code)
            self.trees[source_code] = tree
            return tree

        parse.cache_clear = self.orig_parse.cache_clear
        parse.__wrapped__ = getattr(self.orig_parse, "__wrapped__", None)

        def compile_template(*a, **k):
            obj = self.orig_compile(*a, **k)
            try:
                key = (a, tuple(sorted(k.items())))
                hash(key)
                if all(not isinstance(v, ast.AST) for v in list(a) + list(k.values())):
                    self.templates[key] = obj
            except TypeError:
                pass
            return obj

        compile_template.cache_clear = self.orig_compile.cache_clear
        compile_template.__wrapped__ = getattr(self.orig_compile, "__wrapped__", None)
        core.parse = parse
        core.compile_template = compile_template
        pm = env.mod("pattern_matching")
        self._pm_compile = pm.compile
        pm.compile = compile_template
        return self

    def __exit__(self, *exc):
        self.core.parse = self.orig_parse
        self.core.compile_template = self.orig_compile
        env.mod("pattern_matching").compile = self._pm_compile
        return False

    def violations(self):
        out = []
        for source, tree in list(self.trees.items()):
            try:
                with warnings.catch_warnings():
                    warnings.simplefilter("ignore")
                    fresh = ast.parse(source)
                a = ast.dump(tree, include_attributes=True)
                b = ast.dump(fresh, include_attributes=True)
            except Exception as exc:
                a, b = "dump failed: " + repr(exc), ""
            if a != b:
                out.append(("parse", source, a[:300], b[:300]))
                del self.trees[source]
        for key, obj in list(self.templates.items()):
            a_, k_ = key
            try:
                fresh = self.orig_compile.__wrapped__(*a_, **dict(k_))
                if structure(fresh) != structure(obj):
                    out.append(("compile_template", repr(key)[:300], repr(structure(obj))[:300], repr(structure(fresh))[:300]))
                    del self.templates[key]
            except Exception:
                continue
        return out


# ------------------------------------------------------------------ histories

def run_history(history, zygote):
    """Returns (failures, info)."""
    fails = []
    env.clear_caches()
    seen_results = {}
    info = {"steps": len(history), "changed_before": False, "nontrivial": False, "classes": set()}
    sources_seen = set()
    with Spies() as spies:
        for i, call in enumerate(history):
            progcheck.GUARD_S = 120
            try:
                with env.alarm(120):
                    got = perform(call)
            except env.CaseTimeout:
                return fails, info
            key = env.h(call)
            want = zygote.fresh(call)
            case = {"history": history[: i + 1]}
            if got != want:
                fails.append({"bucket": f"result-depends-on-history:{call['kind']}:{call.get('rule', ['', call.get('api', '')])[1] or call['kind']}", "case": case,
                              "detail": f"step {i} {describe(call)}\n--- in this history\n{str(got)[:900]}\n--- in a fresh process\n{str(want)[:900]}"})
            if key in seen_results:
                info["classes"].add("repeat-of-same-call")
                if seen_results[key] != got:
                    fails.append({"bucket": f"same-call-two-results:{call['kind']}", "case": case, "detail": f"step {i} {describe(call)}\n{str(seen_results[key])[:600]}\n---\n{str(got)[:600]}"})
            seen_results[key] = got
            if call["src"] in sources_seen and info["changed_before"]:
                info["nontrivial"] = True
            if isinstance(got, str) and got != call["src"] and call["kind"] in ("format", "rule"):
                info["changed_before"] = True
            sources_seen.add(call["src"])
            info["classes"].add(call["kind"])
            for kind, what, a, b in spies.violations():
                fails.append({"bucket": f"cache-unfaithful:{kind}:after-{call['kind']}:{call.get('rule', ['', ''])[1]}", "case": case,
                              "detail": f"after step {i} {describe(call)} the object cached for\n{what[:600]}\nno longer equals a fresh one:\n{a}\nvs\n{b}"})
            if fails:
                break
    return fails, info


def describe(call):
    return {k: (v if k != "src" else v[:60] + "...") for k, v in call.items()}


def evaluate(case):
    z = Zygote()
    try:
        return run_history(case["history"], z)[0]
    finally:
        z.close()


@st.composite
def histories(draw, rules):
    pool = []
    # a third of the histories draw all their inputs from ONE family: different texts that share sub-expressions
    # (state keyed by something coarser than the text shows up as interference between such inputs)
    one_family = [draw(st.sampled_from(SENSITIVE))] if draw(st.integers(0, 2)) == 0 else None
    for _ in range(draw(st.integers(1, 3)) + (1 if one_family else 0)):
        if one_family is None and draw(st.integers(0, 4)) == 0:
            pool.append(draw(programs.programs()))
        else:
            pool.append(draw(families.family_program(names=one_family or SENSITIVE))[1])
    history = []
    n = draw(st.integers(3, 10))
    for _ in range(n):
        src = draw(st.sampled_from(pool))
        k = draw(st.sampled_from(["format", "format", "format", "rule", "rule", "pattern", "rejected", "repeat", "other_config"]))
        if k == "repeat" and history:
            history.append(dict(draw(st.sampled_from(history))))
            continue
        if k == "other_config" and history:
            prev = [h for h in history if h["kind"] == "format"]
            if prev:
                p = dict(draw(st.sampled_from(prev)))
                if draw(st.booleans()):
                    p["opts"] = dict(p["opts"], safe=not p["opts"]["safe"])
                else:
                    p["opts"] = dict(p["opts"], max_line_length=draw(st.sampled_from([60, 79, 120])))
                history.append(p)
                continue
        if k in ("format", "repeat", "other_config"):
            history.append({"kind": "format", "src": src, "opts": {"safe": draw(st.booleans()), "keep_imports": False, "preserve": [], "max_line_length": 100}})
        elif k == "rule":
            history.append({"kind": "rule", "src": src, "rule": list(draw(st.sampled_from(rules))), "preserve": []})
        elif k == "pattern":
            api = draw(st.sampled_from(["findall", "finditer", "search", "sub", "compile"]))
            pat = draw(st.sampled_from(["print({{x}})", "{{a}} = {{b}}", "{{f}}({{...*}})", "for {{t}} in {{i}}:\n    {{...+}}", "return {{v}}", "{{x}}.append({{y}})", "[{{e}} for {{v}} in {{i}}]"]))
            history.append({"kind": "pattern", "src": src, "api": api, "pattern": pat, "repl": draw(st.sampled_from(["marker({{x}})", "pass", "{{a}} = 0"]))})
        else:
            history.append({"kind": "rejected", "src": src})
    return history


def plan(tier, seed):
    nsh = 16
    q = tier == "quick"
    return [{"kind": "hist", "n": (800 if q else 8000) // nsh, "seed": env.subseed(seed, ID, "hist", s), "budget_s": 100 if q else 1500} for s in range(nsh)]


def run_shard(spec):
    acc = Acc()
    zygote = Zygote()  # forked before this worker has called pyrefact: pristine
    rules = [list(r) for r in trace.registry()]

    def go(history):
        fails, info = run_history(history, zygote)
        acc.case({"history": history}, info["nontrivial"], sorted(info["classes"]) + ["history-with-reuse" if info["nontrivial"] else "history-without-reuse"],
                 sample=[describe(c) for c in history])
        acc.fails(fails)

    try:
        hyp.run(histories(rules), go, spec["n"], spec["seed"], spec["budget_s"], acc, chunk=10)
    finally:
        zygote.close()
    return acc


def shrink(failure):
    """Drop steps from the front while the same bucket still fails (the last step is the one that failed)."""
    bucket = failure["bucket"]
    history = failure["case"]["history"]
    z = Zygote()
    try:
        changed = True
        while changed and len(history) > 1:
            changed = False
            for i in range(len(history) - 1):
                cand = history[:i] + history[i + 1:]
                fs, _ = run_history(cand, z)
                if any(f["bucket"] == bucket for f in fs):
                    history, changed = cand, True
                    break
        fs, _ = run_history(history, z)
    finally:
        z.close()
    fs = [f for f in fs if f["bucket"] == bucket]
    return {"case": {"history": history}, "detail": fs[0]["detail"] if fs else failure.get("detail", "")}
