"""C07 - safe mode never removes or renames a module's public surface."""
from __future__ import annotations

import ast
import time
import warnings

from hypothesis import strategies as st

from vf import env, hyp, progcheck
from vf.acc import Acc
from vf.gen import corpus, families, programs, texts

ID = "C07"
LEVEL = "exploration"
RULE = (
    "inputs: 'surface' modules drawn from a grammar of top-level definitions (functions / classes / variables that are unused, camelCase / "
    "UPPER / lower / private, duplicated, static, shadowing; assignment targets as names, tuples, lists, starred, chained a = b = .., "
    "annotated with value, augmented; classes with plain / static / class methods, unused self, class attributes, nested classes, "
    "inheritance), rule families, grammar programs, the repository's examples and stdlib modules, all formatted with safe=True under drawn "
    "keep_imports / line length / extra preserve. Oracle: static reference surface(m) = names bound by def/class/Assign/AnnAssign-with-value/"
    "AugAssign that are direct children of the module body, plus Class.name for methods and assigned attributes that are direct children of "
    "a top-level class body; required surface(input) subset of surface'(output) where surface' is computed liberally (any module-scope "
    "binding). Non-trivial = formatting the same input with safe=False loses or renames a surface name; distinct by input."
)
ASSUMPTIONS = ["imports, loop and with targets, and names bound only inside nested blocks are not part of the surface (as the statement says)"]
EXHAUSTIVE = {"quick": False, "thorough": False}


def _targets(t):
    if isinstance(t, ast.Name):
        yield t.id
    elif isinstance(t, (ast.Tuple, ast.List)):
        for e in t.elts:
            yield from _targets(e)
    elif isinstance(t, ast.Starred):
        yield from _targets(t.value)


def surface_in(tree):
    out = set()
    for node in tree.body:
        if isinstance(node, (ast.FunctionDef, ast.AsyncFunctionDef, ast.ClassDef)):
            out.add(node.name)
            if isinstance(node, ast.ClassDef):
                for child in node.body:
                    if isinstance(child, (ast.FunctionDef, ast.AsyncFunctionDef)):
                        out.add(f"{node.name}.{child.name}")
                    elif isinstance(child, ast.Assign):
                        for t in child.targets:
                            for n in _targets(t):
                                out.add(f"{node.name}.{n}")
                    elif isinstance(child, ast.AnnAssign) and child.value is not None:
                        for n in _targets(child.target):
                            out.add(f"{node.name}.{n}")
        elif isinstance(node, ast.Assign):
            for t in node.targets:
                out.update(_targets(t))
        elif isinstance(node, ast.AnnAssign) and node.value is not None:
            out.update(_targets(node.target))
        elif isinstance(node, ast.AugAssign):
            out.update(_targets(node.target))
    return out


def surface_out(tree):
    """Liberal: anything bound anywhere at module scope (outside definitions) and in same-named class bodies."""
    out = set()

    def bind(stmts, prefix=""):
        for node in stmts:
            if isinstance(node, (ast.FunctionDef, ast.AsyncFunctionDef)):
                out.add(prefix + node.name)
                continue
            if isinstance(node, ast.ClassDef):
                out.add(prefix + node.name)
                if not prefix:
                    bind(node.body, node.name + ".")
                continue
            for sub in ast.walk(node):
                if isinstance(sub, ast.Name) and isinstance(sub.ctx, ast.Store):
                    out.add(prefix + sub.id)
                elif isinstance(sub, ast.alias):
                    out.add(prefix + (sub.asname or sub.name.split(".")[0]))
            for field in ("body", "orelse", "finalbody"):
                inner = getattr(node, field, None)
                if isinstance(inner, list) and inner and isinstance(inner[0], ast.stmt):
                    bind(inner, prefix)
            for h in getattr(node, "handlers", []) or []:
                bind(h.body, prefix)

    bind(tree.body)
    return out


def evaluate(case, info=None):
    src = case["src"]
    with warnings.catch_warnings():
        warnings.simplefilter("ignore")
        try:
            tin = ast.parse(src)
        except SyntaxError:
            return []
    want = {n for n in surface_in(tin) if n.split(".")[-1] != "_"}  # '_' is the tool's documented throw-away name, not surface
    kw = progcheck.fmt_opts(dict(case.get("opts") or {}, safe=True))
    env.clear_caches()
    status, out, _ = progcheck.run_tool(env.mod("main").format_code, src, **kw)
    if status != "ok" or not isinstance(out, str):
        return []
    try:
        with warnings.catch_warnings():
            warnings.simplefilter("ignore")
            tout = ast.parse(out)
    except SyntaxError:
        return []  # C03
    have = surface_out(tout)
    missing = sorted(want - have)
    fails = []
    if missing:
        kind = "method-or-attribute" if all("." in m for m in missing) else "module-level-name"
        fails.append({"bucket": f"safe:{kind}-lost", "case": case, "detail": f"missing after safe formatting: {missing}\n--- input\n{src}\n--- output\n{out}"})
    if info is not None:
        env.clear_caches()
        st2, out2, _ = progcheck.run_tool(env.mod("main").format_code, src, **dict(kw, safe=False))
        if st2 == "ok" and isinstance(out2, str):
            try:
                info["unsafe_loses"] = bool(want - surface_out(ast.parse(out2)))
            except SyntaxError:
                pass
    return fails


NAMES = ["helper", "computeThing", "CONSTANT", "_private", "Mixed_Case", "value", "Klass", "lower_class", "x", "data2", "camelCaseVar", "URL", "__dunder__", "Sum", "maxValue"]


@st.composite
def surface_module(draw):
    lines = []
    used = []
    for _ in range(draw(st.integers(2, 7))):
        name = draw(st.sampled_from(NAMES))
        k = draw(st.integers(0, 15))
        if k == 14:
            # control flow at module level: what follows a raise / an endless loop is unreachable, what sits in a dead
            # branch is never executed - but it is still part of the module's text, and safe mode promises to keep it
            lines.append(draw(st.sampled_from([
                "raise ImportError('retired module')\n", "assert False, 'do not import'\n", "while True:\n    pass\n", "import sys\nsys.exit(0)\n",
                "if False:\n    pass\n", "while 1:\n    print('spin')\n", "raise SystemExit\n", "exit()\n"])))
            continue
        if k == 15:
            other = draw(st.sampled_from(NAMES))
            lines.append(draw(st.sampled_from([
                f"if False:\n    {name} = 1\n", f"try:\n    {name} = 1\nexcept NameError:\n    {other} = 2\n", f"_ = len('{name}')\n",
                f"with open(__file__) as {other}:\n    {name} = 1\n", f"{name} = open(__file__)\n{other} = {name}.read()\n{name}.close()\n"])))
            continue
        if k == 0:
            lines.append(f"def {name}(a, b=1):\n    return a + b\n")
        elif k == 1:
            other = draw(st.sampled_from(NAMES))
            lines.append(f"def {name}(v):\n    t = v * 2\n    return t\ndef {other}(w):\n    t = w * 2\n    return t\n")  # duplicates
        elif k == 2:
            lines.append(f"{name} = {draw(st.sampled_from(['1', '[1, 2]', repr('text'), 'None', 'lambda q: q']))}\n")
        elif k == 3:
            other = draw(st.sampled_from(NAMES))
            lines.append(f"{name}, {other} = 1, 2\n")
        elif k == 4:
            other = draw(st.sampled_from(NAMES))
            lines.append(f"{name}, *{other} = [1, 2, 3]\n")
        elif k == 5:
            other = draw(st.sampled_from(NAMES))
            lines.append(f"[{name}, {other}] = [1, 2]\n")
        elif k == 6:
            other = draw(st.sampled_from(NAMES))
            lines.append(f"{name} = {other} = 5\n")
        elif k == 7:
            lines.append(f"{name}: int = 3\n")
        elif k == 8:
            lines.append(f"{name} = 0\n{name} += 2\n")
        elif k == 9:
            meths = []
            for m in draw(st.lists(st.sampled_from(["run", "Helper", "doThing", "_hidden", "static_one", "get"]), min_size=1, max_size=3, unique=True)):
                kind = draw(st.sampled_from(["plain", "noself", "static", "class"]))
                if kind == "plain":
                    meths.append(f"    def {m}(self, v):\n        return self.base + v\n")
                elif kind == "noself":
                    meths.append(f"    def {m}(self, v):\n        return v * 2\n")
                elif kind == "static":
                    meths.append(f"    @staticmethod\n    def {m}(v):\n        return v + 1\n")
                else:
                    meths.append(f"    @classmethod\n    def {m}(cls, v):\n        return v - 1\n")
            attr = draw(st.sampled_from(["", "    LIMIT = 3\n", "    camelAttr = 1\n", "    a, b = 1, 2\n", "    typed: int = 0\n"]))
            base = draw(st.sampled_from(["", "", "(object)", "(Exception)"]))
            lines.append(f"class {name}{base}:\n{attr}    def __init__(self):\n        self.base = 1\n" + "".join(meths))
        elif k == 10:
            lines.append(f"class {name}:\n    class Inner:\n        flag = True\n    pass\n")
        elif k == 11:
            lines.append(f"def {name}():\n    pass\n{name} = 3\n")  # shadowing
        elif k == 12:
            lines.append(f"if True:\n    nested_{name} = 1\nfor loop_{name} in range(2):\n    pass\n")
        else:
            lines.append(f"async def {name}(v):\n    return v\n")
        used.append(name)
    if draw(st.booleans()) and used:
        u = draw(st.sampled_from(used))
        lines.append(f"print({u})\n")
    return "".join(lines)


def plan(tier, seed):
    nsh = 16
    q = tier == "quick"
    specs = []
    for s in range(nsh):
        specs.append({"kind": "generated", "n": (1100 if q else 20000) // nsh, "seed": env.subseed(seed, ID, "gen", s), "budget_s": 90 if q else 1500})
        specs.append({"kind": "corpus", "shard": s, "nshards": nsh, "stride": 4 if q else 1, "offset": seed % 4, "real": 4 if q else 45, "budget_s": 60 if q else 900})
    return specs


def run_shard(spec):
    acc = Acc()
    t0 = time.time()

    def one(src, opts, label):
        case = {"src": src, "opts": opts}
        info = {}
        fails = evaluate(case, info)
        acc.case(case, bool(info.get("unsafe_loses")), [f"src:{label}", "safe-mattered" if info.get("unsafe_loses") else "nothing-at-stake"], sample={"src": src[:300]})
        acc.fails(fails)

    if spec["kind"] == "corpus":
        pool = list(corpus.repo_examples())
        for idx, src in enumerate(pool):
            if idx % spec["nshards"] != spec["shard"] or (idx // spec["nshards"]) % spec["stride"] != spec["offset"] % spec["stride"]:
                continue
            one(src, {}, "corpus")
            if time.time() - t0 > spec["budget_s"]:
                acc.budget_exhausted = True
                break
        for i, (name, src) in enumerate(corpus.realworld()[: spec["real"]]):
            if i % spec["nshards"] == spec["shard"]:
                one(src, {}, "realworld")
        return acc

    def go(data):
        kind = data.draw(st.sampled_from(["surface", "surface", "surface", "family", "grammar"]))
        if kind == "surface":
            src = data.draw(surface_module())
        elif kind == "family":
            src = data.draw(families.family_program())[1]
        else:
            src = data.draw(programs.programs())
        opts = {"keep_imports": data.draw(st.booleans()), "max_line_length": data.draw(st.sampled_from([60, 100, 120])),
                "preserve": data.draw(st.sampled_from([[], [], ["helper"], ["nope"]]))}
        one(src, opts, kind)

    hyp.run(st.data(), go, spec["n"], spec["seed"], spec["budget_s"], acc, chunk=40)
    return acc


def shrink(failure):
    bucket = failure["bucket"]

    def still(c):
        return any(f["bucket"] == bucket for f in evaluate(c))

    best = progcheck.shrink_program(failure["case"], still, budget=100)
    fs = [f for f in evaluate(best) if f["bucket"] == bucket]
    return {"case": best, "detail": fs[0]["detail"] if fs else failure.get("detail", "")}
