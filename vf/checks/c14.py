"""C14 - pattern substitution rewrites exactly the matches and nothing else."""
from __future__ import annotations

import ast
import copy
import os
import re
import shutil
import tempfile
import warnings

from hypothesis import strategies as st

from vf import env, hyp, progcheck
from vf.acc import Acc
from vf.gen import corpus, patterns
from vf.ref import matcher as ref

ID = "C14"
LEVEL = "exploration"
MARK = "vf_marker"
RULE = (
    "(pattern, replacement, source, count): expression, statement and fixed-length statement-sequence patterns derived from nodes of a "
    "repository example or of directed sources (optional fields present and absent, generator expressions as sole call argument) with "
    "named / repeated / {{...}} wildcards; "
    "replacement templates that use each wildcard 0, 1 or n times inside a unique marker call, as a bare wildcard, in an operator slot "
    "(precedence class) or self-substitution (repl == pattern); absent patterns (near misses); nested, adjacent and repeated matches; indented "
    "targets; generator-expression targets; lines with '# pyrefact: ignore'; count in {0, 1, 2}; the replace CLI on temp files. Oracle: absent "
    "pattern -> output byte-identical; otherwise a reference checker walks source tree and result tree in parallel: at every position the "
    "sub-trees are equal, or the source node is a reference match and the result sub-tree equals the replacement template instantiated ON "
    "TREES with that match's bindings (independent of format_template); the applied set must be non-overlapping, of size <= count when "
    "count > 0, non-empty when an un-ignored match exists, and contain no match on an ignored line; self-substitution preserves ast.dump; "
    "every source line that intersects no reference match span is carried over unchanged and in order; CLI result == sub(). Non-trivial = "
    ">=1 applied match and result != source; distinct by case; histogram by class."
)
ASSUMPTIONS = [
    "sources that themselves contain '{{' and replacements that put a bound statement inside an expression are outside the domain",
    "'{{...}}' may or may not match an absent optional field (pyrefact documents it as matching everything)",
    "sequence patterns: every applied window must be a reference window; completeness of sequence search is C12's",
    "subn's returned number is only used as an upper bound (it counts replacements offered to the scheduler)",
]
EXHAUSTIVE = {"quick": False, "thorough": False}


def parses(src):
    with warnings.catch_warnings():
        warnings.simplefilter("ignore")
        try:
            return ast.parse(src)
        except (SyntaxError, ValueError):
            return None


def strip_pos(tree):
    for n in ast.walk(tree):
        for a in ("lineno", "col_offset", "end_lineno", "end_col_offset"):
            n.__dict__.pop(a, None)
        if isinstance(n, ast.Constant):
            n.kind = None
        if hasattr(n, "ctx"):
            n.ctx = ast.Load()
    return tree


def dump(node):
    return ast.dump(strip_pos(copy.deepcopy(node)))


def bindings_of(p, node):
    """First environment of the reference matcher, as {name: node/str} (re-derived by structural descent)."""
    out = {}

    def descend(pat, n):
        w = p.as_wild(pat)
        if w is not None and not isinstance(pat, ast.alias):
            if w.name and w.name not in out:
                out[w.name] = n
            return
        if isinstance(pat, list) and isinstance(n, list):
            if len(pat) == len(n):
                for a, b in zip(pat, n):
                    descend(a, b)
            return
        if isinstance(pat, ast.AST) and isinstance(n, ast.AST):
            for f in pat._fields:
                descend(getattr(pat, f, None), getattr(n, f, None))
            return
        if isinstance(pat, str) and isinstance(n, str):
            w2 = p.wild.get(pat)
            if w2 is not None and w2.name and w2.name not in out:
                out[w2.name] = n

    descend(p.root, node)
    return out


class IllTyped(Exception):
    """The replacement puts a bound statement where only an expression can stand: outside the domain."""


def instantiate(repl_text, binds):
    """Reference instantiation ON TREES: parse the replacement with placeholders, then graft the bound sub-trees."""
    keys = {}

    def sub(m):
        k = f"vfslot{len(keys)}zz"
        keys[k] = m.group(1)
        return k

    text = re.sub(r"\{\{(\w+)\}\}", sub, repl_text)
    tree = parses(text)
    if tree is None or not tree.body:
        return None

    class Graft(ast.NodeTransformer):
        def visit_Name(self, node):
            if node.id in keys:
                b = binds.get(keys[node.id])
                if isinstance(b, ast.Expr):
                    return copy.deepcopy(b.value)  # an expression statement bound to a wildcard used in expression position
                if isinstance(b, ast.stmt):
                    raise IllTyped()  # a statement bound to a wildcard that the replacement uses inside an expression
                if isinstance(b, ast.AST):
                    return copy.deepcopy(b)
                if isinstance(b, str):
                    return ast.Name(id=b, ctx=ast.Load())
            return node

        def visit_Expr(self, node):
            if isinstance(node.value, ast.Name) and node.value.id in keys:
                b = binds.get(keys[node.value.id])
                if isinstance(b, ast.stmt):
                    return copy.deepcopy(b)
            return self.generic_visit(node)

    tree = Graft().visit(tree)
    if len(tree.body) == 1 and isinstance(tree.body[0], ast.Expr):
        return [tree.body[0].value], tree.body
    return None, tree.body


class Span:
    """A matched statement window, with the line attributes of a node."""

    def __init__(self, window):
        self.window = tuple(window)
        self.lineno = window[0].lineno
        self.end_lineno = window[-1].end_lineno
        self.decorator_list = getattr(window[0], "decorator_list", [])


def seq_matches(p, window):
    envs = [{}]
    for pat, node in zip(p.root, window):
        envs = [e2 for e in envs for e2 in ref.match_node(p, pat, node, e)]
        if not envs:
            return False
    return True


def safe_instantiate(repl_text, binds):
    try:
        return instantiate(repl_text, binds)
    except IllTyped:
        return None


def node_span_lines(n):
    return (n.lineno, n.end_lineno)


def check_trees(p, repl_text, src_tree, out_tree, source, ignored_lines):
    """Parallel walk. Returns (problem or None, applied matches)."""
    applied = []
    is_stmt_pat = p.kind == "statement"

    def same(a, b):
        return dump(a) == dump(b)

    def walk(a, b, path):
        if isinstance(a, ast.AST) and isinstance(b, ast.AST) and type(a) is type(b) and same(a, b):
            return None
        if isinstance(a, ast.AST) and p.kind != "sequence" and ref.matches(p, a):
            binds = bindings_of(p, a)
            inst = instantiate(repl_text, binds)
            if inst is not None:
                exprs, stmts = inst
                cands = []
                if exprs and isinstance(b, ast.AST):
                    cands.append(dump(exprs[0]) == dump(b))
                    if isinstance(a, ast.stmt) and isinstance(b, ast.Expr):
                        cands.append(dump(exprs[0]) == dump(b.value))
                if isinstance(b, ast.AST) and len(stmts) == 1:
                    cands.append(dump(stmts[0]) == dump(b))
                if any(cands):
                    applied.append(a)
                    return None
                # may be an unapplied match whose children changed: fall through to structural descent
        if isinstance(a, ast.Expr) and isinstance(b, ast.stmt) and p.kind != "sequence" and ref.matches(p, a.value):
            # an expression statement whose expression matched, replaced by text that parses as a statement
            inst = instantiate(repl_text, bindings_of(p, a.value))
            if inst is not None and len(inst[1]) == 1 and dump(inst[1][0]) == dump(b):
                applied.append(a.value)
                return None
        if isinstance(a, ast.AST) and isinstance(b, ast.AST) and type(a) is type(b):
            for f in a._fields:
                r = walk(getattr(a, f, None), getattr(b, f, None), path + [f])
                if r:
                    return r
            return None
        if isinstance(a, list) and isinstance(b, list):
            if len(a) == len(b) and p.kind != "sequence":
                for i, (x, y) in enumerate(zip(a, b)):
                    r = walk(x, y, path + [i])
                    if r:
                        return r
                return None
            if p.kind == "sequence":
                k = len(p.root)

                def align(i, j):
                    if i == len(a) and j == len(b):
                        return True
                    mark = len(applied)
                    window = a[i:i + k]
                    if len(window) == k and all(isinstance(w, ast.stmt) for w in window) and seq_matches(p, window):
                        inst = instantiate(repl_text, bindings_of(p, window))
                        if inst is not None:
                            m = len(inst[1])
                            if [dump(t) for t in inst[1]] == [dump(t) for t in b[j:j + m]]:
                                applied.append(Span(window))
                                if align(i + k, j + m):
                                    return True
                                del applied[mark:]
                    if i < len(a) and j < len(b) and walk(a[i], b[j], path + [i]) is None:
                        if align(i + 1, j + 1):
                            return True
                    del applied[mark:]
                    return False

                if align(0, 0):
                    return None
                return f"statement list at {path} ({len(a)} -> {len(b)} statements) is not the source list with matched windows replaced"
            # a statement match replaced by several statements: align greedily
            i = j = 0
            while i < len(a) and j < len(b):
                x = a[i]
                target = x if isinstance(x, ast.AST) and ref.matches(p, x) else (x.value if isinstance(x, ast.Expr) and ref.matches(p, x.value) else None)
                if isinstance(x, ast.AST) and isinstance(b[j], ast.AST) and same(x, b[j]):
                    i, j = i + 1, j + 1
                    continue
                if target is not None:
                    inst = instantiate(repl_text, bindings_of(p, target))
                    if inst is not None:
                        k = len(inst[1])
                        if k >= 1 and [dump(t) for t in inst[1]] == [dump(t) for t in b[j:j + k]]:
                            applied.append(target)
                            i, j = i + 1, j + k
                            continue
                r = walk(x, b[j], path + [i])
                if r:
                    return r
                i, j = i + 1, j + 1
            if i != len(a) or j != len(b):
                return f"list length changed at {path}: {len(a)} -> {len(b)} (not explained by multi-statement replacements)"
            return None
        if isinstance(a, ast.AST) or isinstance(b, ast.AST) or isinstance(a, list) or isinstance(b, list):
            return f"structure differs at {path}: {type(a).__name__} vs {type(b).__name__}"
        if a != b and path[-1] not in ("kind", "lineno", "col_offset", "end_lineno", "end_col_offset", "type_comment"):
            return f"value differs at {path}: {a!r} vs {b!r}"
        return None

    problem = walk(src_tree, out_tree, [])
    return problem, applied


def replacing_is_valid(source, node, repl, p):
    """Would splicing the instantiated replacement over this match give valid code? (an invalid result is rolled back)"""
    binds = bindings_of(p, node)
    text = repl
    for k, v in binds.items():
        text = text.replace("{{" + k + "}}", ast.unparse(v) if isinstance(v, ast.AST) else str(v))
    if "{{" in text:
        return False
    seg = ast.get_source_segment(source, node)
    if not seg or source.count(seg) < 1:
        return False
    lines = source.split("\n")
    start = sum(len(l) + 1 for l in lines[: node.lineno - 1]) + len(lines[node.lineno - 1].encode()[: node.col_offset].decode(errors="ignore"))
    cand = source[:start] + text + source[start + len(seg):]
    return parses(cand) is not None


OPERATORS = (ast.UnaryOp, ast.BinOp, ast.BoolOp, ast.Compare, ast.IfExp, ast.Lambda, ast.NamedExpr, ast.Starred, ast.Await, ast.Yield, ast.YieldFrom,
             ast.GeneratorExp, ast.Tuple)


def precedence_sensitive(case):
    """F-C14-01: the replacement is spliced as text: (a) its top level is an operator expression (it lands in a tighter
    context unparenthesised) or (b) a wildcard sits in an operator / attribute / call-function slot of the replacement."""
    keys = set()

    def sub(m):
        k = f"vfslot{len(keys)}zz"
        keys.add(k)
        return k

    text = re.sub(r"\{\{(\w+)\}\}", sub, case["repl"])
    tree = parses(text)
    if tree is None or not tree.body:
        return False
    if len(tree.body) == 1:
        stmt = tree.body[0]
        if isinstance(stmt, ast.Expr) and isinstance(stmt.value, OPERATORS):
            return True
        if isinstance(stmt, ast.Expr) and isinstance(stmt.value, ast.Name) and stmt.value.id in keys and not text.strip().startswith("("):
            return True  # a bare wildcard: its binding may be an operator expression
    for n in ast.walk(tree):
        for f, v in ast.iter_fields(n):
            vals = v if isinstance(v, list) else [v]
            for x in vals:
                if isinstance(x, ast.Name) and x.id in keys:
                    if isinstance(n, (ast.UnaryOp, ast.BinOp, ast.BoolOp, ast.Compare)) or (isinstance(n, (ast.Attribute, ast.Subscript)) and f == "value") or (
                            isinstance(n, ast.Call) and f == "func"):
                        return True
    return False


def elif_match(case):
    """F-C14-02: some reference match is an If node whose source text starts with 'elif'."""
    tree = parses(case["source"])
    if tree is None:
        return False
    try:
        p = ref.Pattern(case["pattern"])
    except (SyntaxError, ValueError):
        return False
    if p.kind != "statement":
        return False
    for m in ref.find_nodes(p, tree):
        seg = ast.get_source_segment(case["source"], m) or ""
        if isinstance(m, ast.If) and seg.startswith("elif"):
            return True
    return False


def semicolon_neighbour(case):
    """F-C14-03: a matched statement shares its line with another statement (';') and the replacement is a compound statement."""
    tree = parses(case["source"])
    if tree is None or ":" not in case["repl"]:
        return False
    try:
        p = ref.Pattern(case["pattern"])
    except (SyntaxError, ValueError):
        return False
    lines = case["source"].split("\n")
    if p.kind == "sequence":
        req, opt = ref.find_sequences(p, tree)
        found = [w[-1] for w in req + opt]
    else:
        found = ref.find_nodes(p, tree)
    for m in found:
        if isinstance(m, ast.stmt) and m.end_lineno - 1 < len(lines) and ";" in lines[m.end_lineno - 1][m.end_col_offset:]:
            return True
    return False


ref.ANON_MATCHES_ABSENT = True  # '{{...}}' is documented as matching everything, an absent optional field included
def multiline_literal_in_replacement(case):
    """F-C14-04: the replacement text contains a string literal that spans several lines (its continuation lines are
    indented together with the code when the match is indented)."""
    import io
    import tokenize
    text = re.sub(r"\{\{(\w+|\.\.\.)\}\}", "vfslot", case["repl"])
    try:
        for tok in tokenize.generate_tokens(io.StringIO(text).readline):
            if tok.type in (tokenize.STRING, getattr(tokenize, "FSTRING_MIDDLE", -1)) and "\n" in tok.string:
                return True
    except (tokenize.TokenError, SyntaxError, IndentationError):
        return False
    return False


PREDICATES = {"multiline_literal_in_replacement": multiline_literal_in_replacement, "precedence_sensitive": precedence_sensitive, "elif_match": elif_match, "semicolon_neighbour": semicolon_neighbour}


def evaluate(case, info=None):
    pm = env.mod("pattern_matching")
    source, pattern, repl, count = case["source"], case["pattern"], case["repl"], case.get("count", 0)
    fails = []

    def fail(bucket, detail):
        fails.append({"bucket": bucket, "case": case, "detail": f"pattern {pattern!r} repl {repl!r} count {count}\n{detail}\n--- source\n{source[:900]}"})

    src_tree = parses(source)
    if src_tree is None:
        return []
    try:
        p = ref.Pattern(pattern)
    except (SyntaxError, ValueError):
        return []
    if p.kind == "sequence":
        req, opt = ref.find_sequences(p, src_tree)
        ref_matches = [Span(w) for w in req + opt]
    else:
        ref_matches = ref.find_nodes(p, src_tree)
    repl_names = set(re.findall(r"\{\{(\w+)\}\}", repl))
    pat_names = set(re.findall(r"\{\{(\w+)\}\}", pattern))
    inside_fstring = {id(n) for j in ast.walk(src_tree) if isinstance(j, ast.JoinedStr) for n in ast.walk(j) if n is not j}
    if any(id(m) in inside_fstring for m in ref_matches if isinstance(m, ast.AST)):
        return []  # constant parts / fields of f-strings have no source text of their own: outside the domain (as in C13)
    env.clear_caches()
    try:
        with warnings.catch_warnings():
            warnings.simplefilter("ignore")
            out, n = pm.subn(pattern, repl, source, count)
    except (SyntaxError, ValueError, AssertionError, KeyError) as exc:
        if isinstance(exc, ValueError) and "Unfilled wildcards" in str(exc) and repl_names <= pat_names and ref_matches:
            fail("bound-wildcard-left-unfilled", repr(exc))
            return fails
        return []
    except Exception as exc:
        fail("exception:" + env.exc_bucket(exc), repr(exc))
        return fails
    if info is not None:
        info["ref_matches"] = len(ref_matches)
        info["changed"] = out != source
    if not ref_matches:
        if out != source:
            fail("absent-pattern-changed-text", f"--- output\n{out[:600]}")
        return fails
    out_tree = parses(out)
    if out_tree is None:
        return []  # validity is C03's
    if case.get("must_apply") and out == source:
        fail("match-not-replaced", "a directed case whose splice is valid by construction came back unchanged")
        return fails
    lines = source.split("\n")
    ignored = {i + 1 for i, l in enumerate(lines) if re.search(r"#\s*pyrefact\s*:\s*(skip_file|ignore)", l)}
    if case.get("self"):
        if dump(src_tree) != dump(out_tree):
            fail("self-substitution-changed-tree", f"--- output\n{out[:600]}")
        return fails
    try:
        problem, applied = check_trees(p, repl, src_tree, out_tree, source, ignored)
    except IllTyped:
        return []
    if info is not None:
        info["applied"] = len(applied)
    if problem:
        fail("result-is-not-source-with-matches-replaced", f"{problem}\n--- output\n{out[:900]}")
        return fails
    if count > 0 and len(applied) > count:
        fail("count-exceeded", f"{len(applied)} replacements applied\n--- output\n{out[:600]}")
    for a in applied:
        if any(l in ignored for l in range(a.lineno, a.end_lineno + 1)):
            fail("ignored-line-rewritten", f"match on lines {a.lineno}-{a.end_lineno}\n--- output\n{out[:600]}")
    free = [m for m in ref_matches if not any(l in ignored for l in range(m.lineno, m.end_lineno + 1))]
    if p.kind != "sequence" and count == 0 and len(free) == 1 and not applied and out == source and "\n" not in repl.strip() and safe_instantiate(repl, bindings_of(p, free[0])) is not None:
        inst = instantiate(repl, bindings_of(p, free[0]))
        # a no-op replacement (instantiation equals the match) legitimately changes nothing
        exprs, stmts = inst
        noop = (exprs and dump(exprs[0]) == dump(free[0])) or (len(stmts) == 1 and dump(stmts[0]) == dump(free[0]))
        loadable = all(not isinstance(getattr(m, "ctx", None), (ast.Store, ast.Del)) for m in free)
        if not noop and loadable and isinstance(free[0], ast.stmt) == (p.kind == "statement") and replacing_is_valid(source, free[0], repl, p):
            fail("match-not-replaced", f"{len(free)} un-ignored reference matches, nothing replaced")
    # several matches on pairwise different lines, none ignored, each replaceable on its own: all of them must be replaced
    if p.kind != "sequence" and count == 0 and len(free) >= 2 and len(free) == len(ref_matches) and "\n" not in repl.strip():
        spans = sorted((m.lineno, m.end_lineno) for m in free)
        if all(a[1] < b[0] for a, b in zip(spans, spans[1:])) and len(applied) < len(free):
            def replaceable(m):
                if safe_instantiate(repl, bindings_of(p, m)) is None:
                    return False
                exprs, stmts = instantiate(repl, bindings_of(p, m))
                noop = (exprs and dump(exprs[0]) == dump(m)) or (len(stmts) == 1 and dump(stmts[0]) == dump(m))
                loadable = not isinstance(getattr(m, "ctx", None), (ast.Store, ast.Del))
                return not noop and loadable and isinstance(m, ast.stmt) == (p.kind == "statement") and replacing_is_valid(source, m, repl, p)
            try:
                ok = all(replaceable(m) for m in free)
            except IllTyped:
                ok = False
            if ok:
                fail("some-matches-not-replaced", f"{len(free)} un-ignored matches on different lines, {len(applied)} replaced\n--- output\n{out[:900]}")
    # untouched lines
    touched = set()
    for m in ref_matches:
        first = min([m.lineno] + [d.lineno for d in getattr(m, "decorator_list", []) or []])
        touched.update(range(first, m.end_lineno + 1))
    keep = [l for i, l in enumerate(lines, start=1) if i not in touched and l.strip()]
    out_lines = out.split("\n")
    pos = 0
    for l in keep:
        try:
            pos = out_lines.index(l, pos) + 1
        except ValueError:
            fail("untouched-line-changed", f"line {l!r} (outside every match) is not carried over in order\n--- output\n{out[:900]}")
            break
    if case.get("cli") and "\r" not in source:
        d = tempfile.mkdtemp(prefix="vf_c14_")
        try:
            path = os.path.join(d, "mod.py")
            with open(path, "w", encoding="utf-8", newline="") as fh:
                fh.write(source)
            import contextlib
            import io
            env.clear_caches()
            with warnings.catch_warnings():
                warnings.simplefilter("ignore")
                want = pm.sub(pattern, repl, source)
            try:
                with contextlib.redirect_stdout(io.StringIO()):
                    pm.main(["replace", pattern, repl, path])
                with open(path, encoding="utf-8", newline="") as fh:
                    got = fh.read()
                if got != want:
                    fail("cli-result-differs-from-sub", f"--- sub()\n{want[:500]}\n--- file\n{got[:500]}")
            except BaseException as exc:
                if not isinstance(exc, SystemExit):
                    fail("cli-exception:" + env.exc_bucket(exc), repr(exc))
        finally:
            shutil.rmtree(d, ignore_errors=True)
    return fails


REPLS_EXPR = ["{M}({w})", "{M}({w}, {w})", "{M}()", "{w}", "({w})", "{M}({w}) + 1", "{w} * 2", "-{w}", "not {w}", "{M}([{w}])", "{M}({w}.attr)", "{w}.{M}"]
REPLS_STMT = ["{M}({w})", "{M} = {w}", "pass", "if {w}:\n    {M}()", "{M}({w})\n{M}(0)"]


# sources in which an optional field is present in one place and absent in another: a wildcard never stands for "nothing"
OPTIONAL_FIELD_SOURCES = [
    "def f(x):\n    if x:\n        return\n    return x\n",
    "def g(e):\n    try:\n        h()\n    except ValueError:\n        raise\n    raise e\n",
    "a = x[1:]\nb = x[1:2]\nc = x[:2]\nd = x[1:2:3]\n",
    "def h():\n    yield\n    yield 1\n",
    "class A:\n    p: int\n    q: int = 2\n",
    "def k(a) -> int:\n    return a\ndef m(a):\n    return a\n",
    "try:\n    f()\nexcept:\n    g()\ntry:\n    f()\nexcept OSError:\n    g()\n",
    "with a:\n    f()\nwith a as b:\n    f()\n",
    "assert x\nassert x, 'm'\n",
    "raise E\n\nraise E from c\n",
    "d = {**a, 'k': 1}\ne = {'j': 2, 'k': 1}\n",
    # generator expressions as the sole argument of a call share the call's parentheses
    "total = sum(x * x for x in items)\n",
    "print(any(v for v in vs))\nu = (v for v in vs)\n",
    "def f(b):\n    return tuple(g(a) for a in b if a)\n",
]


# literals whose source text holds escaped backslashes: a binding is code, not a regular-expression replacement string
ESCAPE_SOURCES = [
    "a = f('x\\\\ny', 1)\nb = f(b'\\\\x00', 2)\nc = g('C:\\\\temp\\\\new')\n",
    "print(sub('\\\\d+', '\\\\g<0>', s))\nq = sub('\\\\1', r'\\1', t)\n",
    "p = join('a\\\\b', \"c\\\\t\")\nr = join('plain', 'n\\n')\n",
]
DIRECTED_PATTERNS = {
    "total = sum(x * x for x in items)\n": ["({{a}} for x in items)", "({{a}} for {{b}} in {{c}})", "(x * x for x in {{c}})"],
    "print(any(v for v in vs))\nu = (v for v in vs)\n": ["(v for v in {{c}})", "({{a}} for {{a}} in vs)"],
    "def f(b):\n    return tuple(g(a) for a in b if a)\n": ["({{e}} for a in b if a)", "(g(a) for a in {{c}} if {{d}})"],
}


# re-indenting replacements: the result differs from the source only in indentation (the last statement leaves its block)
REINDENT = [
    ("if a:\n    f()\n    g()\nh()\n", "if {{c}}:\n    {{x}}\n    {{y}}", "if {{c}}:\n    {{x}}\n{{y}}"),
    ("def k(r):\n    for i in r:\n        f(i)\n        g(i)\n    return 1\n", "for {{i}} in {{r}}:\n    {{x}}\n    {{y}}", "for {{i}} in {{r}}:\n    {{x}}\n{{y}}"),
    ("while t():\n    a = 1\n    b = 2\n", "while {{c}}:\n    {{x}}\n    {{y}}", "while {{c}}:\n    {{x}}\n{{y}}"),
    ("with o as q:\n    q.r()\n    s = 1\nprint(s)\n", "with {{o}} as {{q}}:\n    {{x}}\n    {{y}}", "with {{o}} as {{q}}:\n    {{x}}\n{{y}}"),
    ("if a:\n    f()\ng()\n", "if {{c}}:\n    {{x}}\n{{y}}", "if {{c}}:\n    {{x}}\n    {{y}}"),
]


def plan(tier, seed):
    nsh = 16
    q = tier == "quick"
    return [{"kind": "gen", "n": (16000 if q else 160000) // nsh, "seed": env.subseed(seed, ID, "gen", s), "budget_s": 80 if q else 900} for s in range(nsh)]


def run_shard(spec):
    acc = Acc()
    pool = [s for s in corpus.ascii_examples() if len(s) < 1500 and "{{" not in s]  # '{{x}}' inside the SOURCE is outside the domain

    def go(data):
        if data.draw(st.integers(0, 39)) == 0:
            source, pattern, repl = data.draw(st.sampled_from(REINDENT))
            case = {"source": source, "pattern": pattern, "repl": repl, "count": data.draw(st.sampled_from([0, 1])), "self": False, "cli": False, "must_apply": True}
            info = {}
            fails = evaluate(case, info)
            acc.case(case, bool(info.get("applied")) and bool(info.get("changed")), ["directed-reindent"] + (["applied"] if info.get("applied") else ["nothing-applied"]),
                     sample={"pattern": pattern, "repl": repl, "source": source})
            acc.fails(fails)
            return
        pick = data.draw(st.integers(0, 29))
        source = data.draw(st.sampled_from(OPTIONAL_FIELD_SOURCES)) if pick < 2 else data.draw(st.sampled_from(ESCAPE_SOURCES)) if pick < 4 else data.draw(st.sampled_from(pool))
        tree = parses(source)
        if tree is None:
            return
        classes = []
        if pick in (2, 3):
            classes.append("escaped-backslash-literals")
        if data.draw(st.integers(0, 3)) == 0 and source.endswith("\n") and parses(source.rstrip("\n")) is not None:
            source = source.rstrip("\n")
            classes.append("no-trailing-newline")
        if data.draw(st.integers(0, 5)) == 0:
            lines = source.split("\n")
            cand = [i for i, l in enumerate(lines) if l.strip() and "#" not in l and not l.rstrip().endswith(("\\", ",", "(", "[", "{"))]
            if cand:
                i = cand[-1] if data.draw(st.integers(0, 2)) == 0 else data.draw(st.sampled_from(cand))
                lines[i] = lines[i] + "  # pyrefact: ignore"
                cand_src = "\n".join(lines)
                t2 = parses(cand_src)
                if t2 is not None and dump(t2) == dump(tree):
                    source, tree = cand_src, t2
                    classes.append("ignore-comment")
        near = data.draw(st.integers(0, 6)) == 0
        if source in DIRECTED_PATTERNS and data.draw(st.booleans()):
            d = {"pattern": data.draw(st.sampled_from(DIRECTED_PATTERNS[source])), "classes": ["directed-generator-argument"]}
            classes.append("directed-generator-argument")
        elif data.draw(st.integers(0, 5)) == 0:
            d = data.draw(patterns.derived_sequence(source, tree))
        else:
            d = data.draw(patterns.derived(source, tree, allow_near=near, max_wild=3, allow_quant=False))
        if d is None or "{{...}}" in d["pattern"] and data.draw(st.booleans()):
            return
        names = sorted(set(re.findall(r"\{\{(\w+)\}\}", d["pattern"])))
        try:
            kind = ref.Pattern(d["pattern"]).kind
            is_stmt = kind == "statement"
        except (SyntaxError, ValueError):
            return
        mode = data.draw(st.sampled_from(["template", "template", "template", "self"]))
        if mode == "self":
            repl = d["pattern"]
            if "{{...}}" in repl:
                return
            classes.append("self-substitution")
        else:
            tmpl = data.draw(st.sampled_from(REPLS_STMT if is_stmt or kind == "sequence" else REPLS_EXPR))
            w = "{{" + data.draw(st.sampled_from(names)) + "}}" if names else "0"
            repl = tmpl.replace("{M}", MARK).replace("{w}", w)
            classes.append("multi-use-wildcard" if tmpl.count("{w}") > 1 else "zero-use-wildcard" if "{w}" not in tmpl else "single-use-wildcard")
            if tmpl in ("{w} * 2", "-{w}", "not {w}", "{w}.{M}", "{M}({w}.attr)"):
                classes.append("precedence-slot")
        case = {"source": source, "pattern": d["pattern"], "repl": repl, "count": data.draw(st.sampled_from([0, 0, 0, 1, 2])), "self": mode == "self",
                "cli": data.draw(st.integers(0, 7)) == 0}
        if precedence_sensitive(case):
            acc.excluded["F-C14-01"] += 1  # known finding: textual splice ignores operator precedence
            return
        if multiline_literal_in_replacement(case):
            acc.excluded["F-C14-04"] += 1  # known finding: a multi-line literal in the replacement text is re-indented
            return
        if semicolon_neighbour(case):
            acc.excluded["F-C14-03"] += 1
            return
        if elif_match(case):
            acc.excluded["F-C14-02"] += 1  # known finding: an elif branch is replaced as if it were a statement of its own
            return
        info = {}
        fails = evaluate(case, info)
        if near:
            classes.append("near-miss")
        if kind == "sequence":
            classes.append("sequence-pattern")
        if info.get("ref_matches", 0) > 1:
            classes.append("several-matches")
        acc.case(case, bool(info.get("applied")) and bool(info.get("changed")), classes + (["applied"] if info.get("applied") else ["nothing-applied"]),
                 sample={"pattern": d["pattern"], "repl": repl, "source": source[:200]})
        acc.fails(fails)

    hyp.run(st.data(), go, spec["n"], spec["seed"], spec["budget_s"], acc, chunk=80)
    return acc
