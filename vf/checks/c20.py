"""C20 - opt-out comments are honoured (skip_file: byte-for-byte; ignore: the line is carried over verbatim)."""
from __future__ import annotations

import ast
import contextlib
import io
import os
import shutil
import sys
import tempfile
import time
import warnings

from hypothesis import strategies as st

from vf import env, hyp, progcheck, trace
from vf.acc import Acc
from vf.gen import corpus, families, programs, texts
from vf.checks.c04 import options

ID = "C20"
LEVEL = "exploration"
IGN = "  # pyrefact: ignore"
RULE = (
    "(a) skip_file: any text (valid programs, invalid/mutated text, near-empty text) with '# pyrefact: skip_file' inserted as a comment at "
    "a drawn line, through format_code (drawn options), format_file (bytes, mtime_ns, return value) and main(['--from-stdin']); (b) ignore: "
    "rule-firing programs (rule families in all placements, grammar programs, repository examples) x choices of physical lines to annotate "
    "with '  # pyrefact: ignore' (single lines exhaustively per program in thorough, 1-3 drawn lines otherwise; only lines where the comment "
    "leaves the AST unchanged; no tabs). Oracle: (a) output == input byte-for-byte, file untouched, stdin mode prints the source plus the "
    "newline of print; (b) every annotated physical line occurs verbatim as a complete line of the output, same multiplicity and relative "
    "order, and the output parses. Non-trivial (b) = formatting the un-annotated program changes, moves or deletes that line; distinct by "
    "(program, annotated lines, options)."
)
ASSUMPTIONS = ["an annotated line is compared after expandtabs/rstrip of the input line (trailing-whitespace normalisation is layout, C11)"]
EXHAUSTIVE = {"quick": False, "thorough": False}


def parses(src):
    with warnings.catch_warnings():
        warnings.simplefilter("ignore")
        try:
            ast.parse(src)
            return True
        except (SyntaxError, ValueError):
            return False


def dump(src):
    with warnings.catch_warnings():
        warnings.simplefilter("ignore")
        return ast.dump(ast.parse(src))


def annotatable_lines(src):
    """Indexes of physical lines that can carry a trailing comment without changing the AST."""
    if not parses(src):
        return []
    base = dump(src)
    lines = src.split("\n")
    out = []
    for i, line in enumerate(lines):
        if not line.strip() or "\t" in line or line.rstrip().endswith("\\") or "#" in line:
            continue
        cand = lines[:i] + [line.rstrip() + IGN] + lines[i + 1:]
        text = "\n".join(cand)
        try:
            if dump(text) == base:
                out.append(i)
        except (SyntaxError, ValueError):
            continue
    return out


def annotate(src, idxs, ign=IGN):
    lines = src.split("\n")
    for i in idxs:
        lines[i] = lines[i].rstrip() + ign
    return "\n".join(lines)


def ordered_subsequence(needles, haystack):
    pos = 0
    for n in needles:
        try:
            pos = haystack.index(n, pos) + 1
        except ValueError:
            return False
    return True


def eval_ignore(case, info=None):
    src = case["src"]
    idxs = case["lines"]
    kw = progcheck.fmt_opts(case.get("opts"))
    fmt = env.mod("main").format_code
    annotated = annotate(src, idxs, case.get("ign", IGN))
    want = [annotated.split("\n")[i] for i in idxs]
    env.clear_caches()
    with trace.Tracer() as tr:
        status, out, _ = progcheck.run_tool(fmt, annotated, **kw)
    if status != "ok" or not isinstance(out, str):
        return []
    fails = []

    def verdict(text):
        lines = text.split("\n")
        if any(lines.count(w) < want.count(w) for w in want):
            return "line-not-verbatim"
        if not ordered_subsequence(want, lines):
            return "lines-reordered"
        if any(lines.count(w) > want.count(w) for w in set(want)):
            return "line-duplicated"
        return None

    v = verdict(out)
    if v:
        # culprit = the first rule call after which the annotated lines are no longer intact
        culprit = "untraced-stage"
        before_text, after_text = annotated, out
        for label, b, a in tr.steps:
            if verdict(a):
                culprit, before_text, after_text = label.split(".")[-1], b, a
                break
        fails.append({"bucket": f"ignore:{v}:{culprit}", "case": case,
                      "detail": f"annotated line(s) {want!r} not carried over verbatim; first broken by {culprit}\n--- before that step\n{before_text}\n--- after it\n{after_text}"})
    if not parses(out) and parses(annotated):
        fails.append({"bucket": "ignore:invalid-output", "case": case, "detail": out})
    if info is not None:
        env.clear_caches()
        st2, plain, _ = progcheck.run_tool(fmt, src, **kw)
        if st2 == "ok" and isinstance(plain, str):
            plain_lines = plain.split("\n")
            orig_lines = [src.split("\n")[i].rstrip() for i in idxs]
            info["mattered"] = any(plain_lines.count(l) < orig_lines.count(l) for l in orig_lines) or not ordered_subsequence(orig_lines, plain_lines)
    return fails


def eval_skip(case):
    main = env.mod("main")
    src = case["src"]
    fails = []
    via = case.get("via", "code")
    if via == "code":
        env.clear_caches()
        status, out, _ = progcheck.run_tool(main.format_code, src, **progcheck.fmt_opts(case.get("opts")))
        if status == "ok" and out != src:
            fails.append({"bucket": "skip_file:format_code-changed-text", "case": case, "detail": f"--- input\n{src!r}\n--- output\n{out!r}"})
        elif status == "crash":
            fails.append({"bucket": "skip_file:exception:" + env.exc_bucket(out), "case": case, "detail": repr(out)})
        return fails
    if via == "file":
        d = tempfile.mkdtemp(prefix="vf_c20_")
        try:
            path = os.path.join(d, "mod.py")
            data = src.encode("utf-8")
            with open(path, "wb") as fh:
                fh.write(data)
            os.utime(path, ns=(1_000_000_000, 1_000_000_000))
            env.clear_caches()
            status, ret, _ = progcheck.run_tool(main.format_file, path, **({"safe": True} if case.get("safe") else {}))
            with open(path, "rb") as fh:
                now = fh.read()
            if status == "ok":
                if now != data or os.stat(path).st_mtime_ns != 1_000_000_000:
                    fails.append({"bucket": "skip_file:file-rewritten", "case": case, "detail": f"{data!r} -> {now!r}"})
                if ret:
                    fails.append({"bucket": "skip_file:change-reported", "case": case, "detail": repr(ret)})
            elif status == "crash" and not isinstance(ret, UnicodeDecodeError):
                fails.append({"bucket": "skip_file:exception:" + env.exc_bucket(ret), "case": case, "detail": repr(ret)})
        finally:
            shutil.rmtree(d, ignore_errors=True)
        return fails
    # stdin mode
    old_in, old_out = sys.stdin, sys.stdout
    buf = io.StringIO()
    try:
        sys.stdin = io.StringIO(src)
        sys.stdout = buf
        env.clear_caches()
        with env.alarm(120):
            rc = main.main(["--from-stdin"] + (["--safe"] if case.get("safe") else []))
    except BaseException as exc:
        sys.stdin, sys.stdout = old_in, old_out
        if isinstance(exc, env.CaseTimeout):
            return []
        return [{"bucket": "skip_file:stdin-exception:" + env.exc_bucket(exc), "case": case, "detail": repr(exc)}]
    finally:
        sys.stdin, sys.stdout = old_in, old_out
        import logging
        logging.getLogger("pyrefact").disabled = True
    if buf.getvalue() != src + "\n":
        fails.append({"bucket": "skip_file:stdin-output-differs", "case": case, "detail": f"{src!r} -> {buf.getvalue()!r}"})
    return fails


def evaluate(case):
    if case.get("kind") == "skip":
        return eval_skip(case)
    return eval_ignore(case)


def insert_skip(draw, src):
    lines = src.split("\n")
    i = draw(st.integers(0, len(lines)))
    marker = draw(st.sampled_from(["# pyrefact: skip_file", "#   pyrefact: skip_file", "x = 0  # pyrefact: skip_file", "    # pyrefact: skip_file"]))
    lines.insert(i, marker)
    return "\n".join(lines)


def plan(tier, seed):
    nsh = 16
    q = tier == "quick"
    specs = []
    for s in range(nsh):
        specs.append({"kind": "ignore", "n": (1300 if q else 25000) // nsh, "seed": env.subseed(seed, ID, "ign", s), "budget_s": 90 if q else 1500})
        specs.append({"kind": "skip", "n": (1000 if q else 20000) // nsh, "seed": env.subseed(seed, ID, "skip", s), "budget_s": 45 if q else 600})
    return specs


def run_shard(spec):
    acc = Acc()
    pool = [s for s in corpus.repo_examples() if len(s) < 2500]
    textpool = texts.ZOO + pool[::13]

    if spec["kind"] == "skip":
        def go_skip(data):
            kind = data.draw(st.sampled_from(["valid", "valid", "invalid", "tiny"]))
            if kind == "valid":
                src = data.draw(st.sampled_from(textpool)) if data.draw(st.booleans()) else data.draw(families.family_program())[1]
            elif kind == "invalid":
                src = data.draw(texts.invalid_source(textpool))
            else:
                src = data.draw(st.sampled_from(["", "\n", "x", "\t", "pass\n"]))
            src = insert_skip(data.draw, src)
            if "\r" in src or "\x00" in src:
                src = src.replace("\r", "").replace("\x00", "")
            case = {"kind": "skip", "src": src, "via": data.draw(st.sampled_from(["code", "code", "file", "stdin"])), "opts": data.draw(options()),
                    "safe": data.draw(st.booleans())}
            try:
                src.encode("utf-8")
            except UnicodeEncodeError:
                return
            fails = eval_skip(case)
            acc.case(case, True, [f"skip:{case['via']}:{kind}"], sample={"src": src[:200], "via": case["via"]})
            acc.fails(fails)

        hyp.run(st.data(), go_skip, spec["n"], spec["seed"], spec["budget_s"], acc, chunk=60)
        return acc

    def go(data):
        kind = data.draw(st.sampled_from(["family", "family", "family", "grammar", "corpus"]))
        if kind == "family":
            label, src = data.draw(families.family_program())
        elif kind == "grammar":
            label, src = "grammar", data.draw(programs.programs())
        else:
            label, src = "corpus", data.draw(st.sampled_from(pool))
        src = src.expandtabs(4)
        cands = annotatable_lines(src)
        if not cands:
            acc.hist["no-annotatable-line"] += 1
            return
        k = data.draw(st.sampled_from([1, 1, 1, 2, 3]))
        idxs = sorted(set(data.draw(st.lists(st.sampled_from(cands), min_size=1, max_size=k))))
        case = {"kind": "ignore", "src": src, "lines": idxs, "opts": data.draw(options()),
                "ign": data.draw(st.sampled_from([IGN, IGN, IGN, "  #pyrefact:ignore", "  #   pyrefact :  ignore", " # pyrefact: ignore (reason)",
                                                  "  # noqa: E501  # pyrefact: ignore", "  # type: ignore # pyrefact: ignore", "  # see issue #12 # pyrefact: ignore",
                                                  "  ## pyrefact: ignore"]))}
        info = {}
        fails = eval_ignore(case, info)
        acc.case(case, bool(info.get("mattered")), [f"ignore:{label.split('+')[0]}", "mattered" if info.get("mattered") else "line-untouched-anyway"],
                 sample={"annotated": annotate(src, idxs, case["ign"])[:400]})
        acc.fails(fails)

    hyp.run(st.data(), go, spec["n"], spec["seed"], spec["budget_s"], acc, chunk=30)
    return acc


def shrink(failure):
    case = failure["case"]
    if case.get("kind") != "ignore":
        return None
    bucket = failure["bucket"]
    # keep the annotated lines, drop other statements
    def still(c):
        try:
            return any(f["bucket"] == bucket for f in eval_ignore(c))
        except Exception:
            return False

    best = dict(case)
    lines = best["src"].split("\n")
    budget = 120
    i = len(lines) - 1
    while i >= 0 and budget > 0:
        if i in best["lines"]:
            i -= 1
            continue
        cand_lines = lines[:i] + lines[i + 1:]
        new_idx = [j - 1 if j > i else j for j in best["lines"]]
        cand = dict(best, src="\n".join(cand_lines), lines=new_idx)
        budget -= 1
        if parses(cand["src"]) and still(cand):
            best, lines = cand, cand_lines
        i -= 1
    fs = [f for f in eval_ignore(best) if f["bucket"] == bucket]
    return {"case": best, "detail": fs[0]["detail"] if fs else failure.get("detail", "")}
