"""C12 - pattern matching agrees with its declarative semantics.

core: every quantifier list of length<=3 (quick) / <=4 (thorough) over 12 symbols x every element sequence of
length<=4 / <=5 over {a,b,c}, in three list contexts, match_template vs the reference matcher (and the reference
vs an `re` translation).  halo: patterns derived from corpus sources by abstracting sub-trees into wildcards,
finditer vs the reference occurrences.
"""
from __future__ import annotations

import ast
import itertools
import time
import warnings

from hypothesis import HealthCheck, Phase, given, seed as hseed, settings, strategies as st

from vf import env, hyp
from vf.acc import Acc
from vf.gen import corpus, patterns
from vf.ref import matcher as ref

ID = "C12"
LEVEL = "exploration"
RULE = (
    "core: all template lists of length<=3 (quick) / <=4 (thorough) over {a, b, {{x}}, {{y}}, {{x?}}, {{x*}}, {{x+}}, {{y*}}, "
    "{{...}}, {{...?}}, {{...*}}, {{...+}}} x all element sequences of length<=4 / <=5 over {a,b,c} in call-argument, "
    "list-display and statement-body context (bounded exhaustive; compile_template + match_template, and a strided sample through "
    "findall); halo: (pattern, source) pairs where the pattern is a node or a consecutive statement window of a corpus source with "
    "sub-trees abstracted into named / repeated / {{...}} / quantified / identifier wildcards, plus near misses and self patterns. "
    "Oracle: independent reference matcher (set of matching nodes == nodes reported by finditer). Non-trivial = reference says match "
    "with >=1 quantified or repeated wildcard, or a near-miss / mismatch pair where it says no match; distinct by (pattern, source)."
)
ASSUMPTIONS = [
    "a wildcard stands for a syntax tree or identifier, never for an absent optional field or a whole list",
    "named wildcards are compared through ast.unparse, including the repetitions of a named quantified wildcard (pinned tests)",
    "quantified wildcards only in call arguments, list/tuple/set displays, statement bodies and import lists; top-level statement-sequence patterns have fixed length",
    "ASCII sources (geometry of non-ASCII text is C13)",
]
EXHAUSTIVE = {"quick": True, "thorough": True}

SYMS = ["a", "b", "{{x}}", "{{y}}", "{{x?}}", "{{x*}}", "{{x+}}", "{{y*}}", "{{...}}", "{{...?}}", "{{...*}}", "{{...+}}"]
ELTS = ["a", "b", "c"]


def sym_desc(s):
    if not s.startswith("{{"):
        return ("lit", s)
    inner = s[2:-2]
    quant = inner[-1] if inner[-1] in "?*+" else ""
    name = inner.rstrip("?*+")
    return ("wild", None if name == "..." else name, quant)


def ctx_texts(ctx, items):
    if ctx == "args":
        return "f(" + ", ".join(items) + ")"
    if ctx == "list":
        return "[" + ", ".join(items) + "]"
    return "def g():\n" + "".join(f"    {i}\n" for i in items) + "    end\n"


def core_eval(ctx, tmpl, seq, via_api=False):
    core = env.mod("core")
    ptext = ctx_texts(ctx, list(tmpl))
    stext = ctx_texts(ctx, list(seq))
    case = {"layer": "core", "ctx": ctx, "pattern": ptext, "source": stext, "api": via_api}
    fails = []
    p = ref.Pattern(ptext)
    tree = ast.parse(stext)
    node = tree.body[0] if ctx == "body" else tree.body[0].value
    want = ref.matches(p, node)
    # harness self-consistency: second oracle
    rx = ref.regex_for([sym_desc(s) for s in tmpl])
    if rx is not None:
        if bool(rx.match("".join(seq))) != want:
            raise env.HarnessError(f"reference matcher and regex oracle disagree on {ptext!r} vs {stext!r}")
    try:
        if via_api:
            pm = env.mod("pattern_matching")
            got = len(pm.findall(ptext, stext)) > 0
        else:
            template = core.compile_template(ptext)
            got = bool(core.match_template(node, template))
    except Exception as exc:
        fails.append({"bucket": "exception:" + env.exc_bucket(exc), "case": case, "detail": repr(exc)})
        return fails, want, case
    if got != want:
        fails.append({"bucket": f"core:{'spurious-match' if got else 'missed-match'}:{ctx}", "case": case,
                      "detail": f"pattern {ptext!r} vs {stext!r}: implementation {got}, reference {want}"})
    return fails, want, case


def node_key(n):
    return (type(n).__name__, getattr(n, "lineno", None), getattr(n, "col_offset", None), getattr(n, "end_lineno", None),
            getattr(n, "end_col_offset", None))


def _offsets(source):
    starts = [0]
    for line in source.splitlines(keepends=True):
        starts.append(starts[-1] + len(line))
    return starts


def window_span(source, window):
    starts = _offsets(source)
    first, last = window[0], window[-1]
    decs = getattr(first, "decorator_list", None)
    if decs:
        d = min(decs, key=lambda x: (x.lineno, x.col_offset))
        s = starts[d.lineno - 1] + d.col_offset - 1
    else:
        s = starts[first.lineno - 1] + first.col_offset
    e = starts[last.end_lineno - 1] + last.end_col_offset
    return (s, e)


def halo_eval(case):
    pm = env.mod("pattern_matching")
    source, ptext = case["source"], case["pattern"]
    fails = []
    with warnings.catch_warnings():
        warnings.simplefilter("ignore")
        try:
            p = ref.Pattern(ptext)
        except (SyntaxError, ValueError):
            return [], None
        tree = ast.parse(source)
        try:
            found = list(pm.finditer(ptext, source))
        except Exception as exc:
            return [{"bucket": "exception:" + env.exc_bucket(exc), "case": case, "detail": repr(exc)}], None
    info = {"kind": p.kind}
    if p.kind == "sequence":
        req, opt = ref.find_sequences(p, tree)
        req_s = {window_span(source, w) for w in req}
        opt_s = {window_span(source, w) for w in opt}
        got = [tuple(m.span) for m in found]
        missing = req_s - set(got)
        extra = set(got) - req_s - opt_s
        info["n"] = len(req_s)
        if missing:
            fails.append({"bucket": "halo:missed-sequence", "case": case,
                          "detail": f"pattern\n{ptext}\nreference occurrences at {sorted(req_s)}, reported {sorted(got)}"})
        if extra:
            fails.append({"bucket": "halo:spurious-sequence", "case": case,
                          "detail": f"pattern\n{ptext}\nreported {sorted(extra)} not a reference occurrence"})
        if len(got) != len(set(got)):
            fails.append({"bucket": "halo:duplicate-sequence", "case": case, "detail": f"{sorted(got)}"})
        return fails, info
    want = {node_key(n) for n in ref.find_nodes(p, tree)}
    got = [node_key(m.root) for m in found]
    info["n"] = len(want)
    missing = want - set(got)
    extra = set(got) - want
    if missing:
        fails.append({"bucket": "halo:missed-occurrence", "case": case,
                      "detail": f"pattern {ptext!r}\nreference matches {sorted(want)}\nreported {sorted(got)}"})
    if extra:
        fails.append({"bucket": "halo:spurious-occurrence", "case": case,
                      "detail": f"pattern {ptext!r}\nreported {sorted(extra)} which the reference rejects"})
    if len(got) != len(set(got)):
        fails.append({"bucket": "halo:duplicate-occurrence", "case": case, "detail": f"{sorted(got)}"})
    return fails, info


def evaluate(case):
    if case["layer"] == "core":
        # rebuild from texts
        core = env.mod("core")
        p = ref.Pattern(case["pattern"])
        tree = ast.parse(case["source"])
        node = tree.body[0] if case["ctx"] == "body" else tree.body[0].value
        want = ref.matches(p, node)
        try:
            if case.get("api"):
                got = len(env.mod("pattern_matching").findall(case["pattern"], case["source"])) > 0
            else:
                got = bool(core.match_template(node, core.compile_template(case["pattern"])))
        except Exception as exc:
            return [{"bucket": "exception:" + env.exc_bucket(exc), "case": case, "detail": repr(exc)}]
        if got != want:
            return [{"bucket": f"core:{'spurious-match' if got else 'missed-match'}:{case['ctx']}", "case": case,
                     "detail": f"implementation {got}, reference {want}"}]
        return []
    if case["layer"] == "obj":
        return obj_eval(case)[0]
    return halo_eval(case)[0]


# ------------------------------------------------------------------ template objects (types, tuples, sets)

def build_obj(spec):
    """spec -> template object for core.match_template (JSON-able description)."""
    core = env.mod("core")
    k = spec[0]
    if k == "type":
        return {"Name": ast.Name, "Constant": ast.Constant, "expr": ast.expr, "AST": ast.AST, "int": int, "str": str,
                "Call": ast.Call, "object": object}[spec[1]]
    if k == "or":
        return tuple(build_obj(s) for s in spec[1])
    if k == "set":
        return {build_obj(s) for s in spec[1]}
    if k == "name":
        return ast.Name(id=build_obj(spec[1]) if isinstance(spec[1], list) else spec[1])
    if k == "const":
        return ast.Constant(value=build_obj(spec[1]) if isinstance(spec[1], list) else spec[1])
    if k == "call":
        args = build_obj(spec[2]) if spec[2] and spec[2][0] == "set" else [build_obj(s) for s in spec[2]]
        return ast.Call(func=build_obj(spec[1]), args=args)
    if k == "wild":
        return core.Wildcard(spec[1], build_obj(spec[2]))
    if k == "lit":
        return spec[1]
    if k == "none":
        return None
    raise ValueError(spec)


def ref_obj(spec, node, env_):
    """Reference semantics of template objects (from the documented rules); yields environments."""
    k = spec[0]
    if k == "type":
        t = {"Name": ast.Name, "Constant": ast.Constant, "expr": ast.expr, "AST": ast.AST, "int": int, "str": str,
             "Call": ast.Call, "object": object}[spec[1]]
        if isinstance(node, t) and not (t is int and isinstance(node, bool) and False):
            yield env_
        return
    if k == "or":
        for s in spec[1]:
            got = list(ref_obj(s, node, env_))
            if got:
                yield from got[:1]  # first alternative that matches is chosen
                return
        return
    if k == "set":
        if not isinstance(node, list):
            return
        envs = [env_]
        for child in node:
            nxt = []
            for e in envs:
                nxt.extend(list(ref_obj(["or", spec[1]], child, e)))
            envs = nxt
            if not envs:
                return
        yield from envs
        return
    if k == "name":
        if isinstance(node, ast.Name):
            yield from (ref_obj(spec[1], node.id, env_) if isinstance(spec[1], list) else ([env_] if node.id == spec[1] else []))
        return
    if k == "const":
        if isinstance(node, ast.Constant):
            if isinstance(spec[1], list):
                yield from ref_obj(spec[1], node.value, env_)
            elif type(node.value) is type(spec[1]) and node.value == spec[1]:
                yield env_
        return
    if k == "call":
        if not isinstance(node, ast.Call):
            return
        for e in ref_obj(spec[1], node.func, env_):
            if spec[2] and spec[2][0] == "set":
                yield from ref_obj(spec[2], node.args, e)
            else:
                if len(spec[2]) != len(node.args):
                    continue
                envs = [e]
                for s, a in zip(spec[2], node.args):
                    nxt = []
                    for ee in envs:
                        nxt.extend(ref_obj(s, a, ee))
                    envs = nxt
                yield from envs
        return
    if k == "wild":
        for e in ref_obj(spec[2], node, env_):
            key = ref.canon(node)
            if spec[1] in e:
                if e[spec[1]] == key:
                    yield e
            else:
                yield {**e, spec[1]: key}
        return
    if k == "lit":
        if node == spec[1]:
            yield env_
        return
    if k == "none":
        if node is None:
            yield env_
        return


def obj_eval(case):
    core = env.mod("core")
    node = ast.parse(case["source"], mode="eval").body
    spec = case["spec"]
    want = any(True for _ in ref_obj(spec, node, {}))
    try:
        got = bool(core.match_template(node, build_obj(spec)))
    except Exception as exc:
        return [{"bucket": "exception:" + env.exc_bucket(exc), "case": case, "detail": repr(exc)}], want
    if got != want:
        return [{"bucket": f"obj:{'spurious-match' if got else 'missed-match'}", "case": case,
                 "detail": f"template {spec} vs {case['source']!r}: implementation {got}, reference {want}"}], want
    return [], want


@st.composite
def obj_specs(draw, depth=2):
    leaf = st.sampled_from([["type", "Name"], ["type", "Constant"], ["type", "expr"], ["type", "AST"], ["type", "Call"],
                            ["name", "a"], ["name", "b"], ["const", 1], ["const", "s"], ["name", ["type", "str"]],
                            ["const", ["type", "int"]], ["const", ["type", "str"]], ["name", ["or", [["lit", "a"], ["lit", "b"]]]],
                            ["const", ["or", [["type", "int"], ["lit", "s"]]]], ["type", "object"]])
    if depth == 0:
        return draw(leaf)
    kind = draw(st.sampled_from(["leaf", "or", "call", "callset", "wild", "wild"]))
    if kind == "leaf":
        return draw(leaf)
    if kind == "or":
        return ["or", [draw(obj_specs(depth=depth - 1)) for _ in range(draw(st.integers(1, 3)))]]
    if kind == "call":
        return ["call", draw(obj_specs(depth=depth - 1)), [draw(obj_specs(depth=depth - 1)) for _ in range(draw(st.integers(0, 3)))]]
    if kind == "callset":
        return ["call", draw(obj_specs(depth=0)), ["set", [draw(obj_specs(depth=0)) for _ in range(draw(st.integers(1, 2)))]]]
    return ["wild", draw(st.sampled_from(["x", "y"])), draw(obj_specs(depth=depth - 1))]


OBJ_SOURCES = ["a", "b", "c", "1", "2", "'s'", "'t'", "a(1)", "a(b)", "a(b, b)", "a(a, b)", "b(1, 's')", "a()", "a(a(1))",
               "a(b(1), b(1))", "a(b(1), b(2))", "c(1, 2, 3)", "a(1)(2)", "True", "a(a)", "b(b, a)", "a(1, 1)", "a('s', 1)"]


# ------------------------------------------------------------------ plan / shards

def templates(maxlen):
    for n in range(0, maxlen + 1):
        yield from itertools.product(SYMS, repeat=n)


def sequences(maxlen):
    for n in range(0, maxlen + 1):
        yield from itertools.product(ELTS, repeat=n)


def plan(tier, seed):
    nsh = 16
    specs = []
    tl, sl = (3, 4) if tier == "quick" else (4, 5)
    for s in range(nsh):
        specs.append({"kind": "core", "shard": s, "nshards": nsh, "tl": tl, "sl": sl, "api_stride": 97, "api_offset": seed % 97,
                      "budget_s": 90 if tier == "quick" else 1500})
        specs.append({"kind": "halo", "shard": s, "n": (8000 if tier == "quick" else 80000) // nsh,
                      "seed": env.subseed(seed, ID, "halo", s), "budget_s": 75 if tier == "quick" else 1200})
        specs.append({"kind": "obj", "shard": s, "n": (8000 if tier == "quick" else 160000) // nsh,
                      "seed": env.subseed(seed, ID, "obj", s), "budget_s": 60 if tier == "quick" else 600})
    return specs


def run_shard(spec):
    acc = Acc()
    t0 = time.time()
    if spec["kind"] == "core":
        seqs = list(sequences(spec["sl"]))
        idx = 0
        for tmpl in templates(spec["tl"]):
            idx += 1
            if idx % spec["nshards"] != spec["shard"]:
                continue
            descs = [sym_desc(s) for s in tmpl]
            quants = {}
            for d in descs:
                if d[0] == "wild" and d[1]:
                    quants.setdefault(d[1], set()).add(d[2])
            if any(len(q) > 1 for q in quants.values()):
                # one name used with two different quantifiers is rejected by compile_template (ValueError): not a pattern
                acc.excluded["mixed-quantifier-name"] += 1
                continue
            interesting = any(d[0] == "wild" and (d[2] or sum(1 for e in descs if e[0] == "wild" and e[1] == d[1] and d[1]) > 1) for d in descs)
            for ctx in ("args", "list", "body"):
                for k, seq in enumerate(seqs):
                    env.clear_caches() if k == 0 else None
                    fails, want, case = core_eval(ctx, tmpl, seq)
                    acc.evaluations += 1
                    if (want and interesting) or (not want and tmpl):
                        acc.nontrivial.add(env.h([ctx, tmpl, seq]))
                        if len(acc.samples) < 4 and want and interesting and len(seq) > 2:
                            acc.samples.append({"pattern": case["pattern"], "source": case["source"], "reference": want})
                    acc.hist["core:match" if want else "core:no-match"] += 1
                    acc.fails(fails)
                    if (idx * 131 + k) % spec["api_stride"] == spec["api_offset"]:
                        fails2, _, _ = core_eval(ctx, tmpl, seq, via_api=True)
                        acc.evaluations += 1
                        acc.hist["core:via-findall"] += 1
                        acc.fails(fails2)
            if time.time() - t0 > spec["budget_s"]:
                acc.budget_exhausted = True
                break
        return acc

    if spec["kind"] == "obj":
        def go_obj(pair):
            spec_, src = pair
            case = {"layer": "obj", "spec": spec_, "source": src}
            fails, want = obj_eval(case)
            acc.case(case, True, ["obj:match" if want else "obj:no-match"])
            acc.fails(fails)

        hyp.run(st.tuples(obj_specs(), st.sampled_from(OBJ_SOURCES)), go_obj, spec["n"], spec["seed"], spec["budget_s"], acc, chunk=500)
        return acc

    sources = [s for s in corpus.ascii_examples() if len(s) < 3000]

    def go(data):
        source = data.draw(st.sampled_from(sources))
        with warnings.catch_warnings():
            warnings.simplefilter("ignore")
            tree = ast.parse(source)
        mode = data.draw(st.sampled_from(["derived", "derived", "derived", "sequence", "self"]))
        if mode == "sequence":
            d = data.draw(patterns.derived_sequence(source, tree))
        elif mode == "self":
            d = data.draw(patterns.derived(source, tree, max_wild=0, allow_quant=False, allow_near=False))
            if d is not None:
                d["classes"].append("self-pattern")
        else:
            d = data.draw(patterns.derived(source, tree, max_wild=4))
        if d is None:
            acc.hist["halo:no-pattern"] += 1
            return
        case = {"layer": "halo", "source": source, "pattern": d["pattern"]}
        env.clear_caches()
        fails, info = halo_eval(case)
        if info is None and not fails:
            acc.hist["halo:pattern-not-parsable"] += 1
            return
        n = (info or {}).get("n", 0)
        cls = set(d["classes"])
        nontrivial = (n > 0 and bool(cls & {"quantified", "repeated-wildcard", "sequence-pattern", "identifier-wildcard"})) or (
            n == 0 and bool(cls & {"near-miss", "repeated-wildcard-mismatch", "quantified-mismatch"}))
        acc.case(case, nontrivial, ["halo:" + c for c in cls] + ["halo:match" if n else "halo:no-match"],
                 sample={"pattern": d["pattern"], "source": source[:300], "reference_occurrences": n})
        if mode == "self" and n == 0:
            fails = fails + [{"bucket": "halo:self-pattern-no-reference-match", "case": case, "detail": "harness: reference rejects a node's own text"}]
        acc.fails(fails)

    hyp.run(st.data(), go, spec["n"], spec["seed"], spec["budget_s"], acc, chunk=100)
    return acc


def shrink(failure):
    case = failure["case"]
    if case.get("layer") != "halo":
        return None
    bucket = failure["bucket"]
    # drop source lines greedily while the same bucket fails
    lines = case["source"].splitlines(keepends=True)
    i = 0
    budget = 200
    while i < len(lines) and budget > 0:
        cand_lines = lines[:i] + lines[i + 1:]
        cand = dict(case, source="".join(cand_lines))
        budget -= 1
        try:
            ast.parse(cand["source"])
            if any(f["bucket"] == bucket for f in halo_eval(cand)[0]):
                lines = cand_lines
                continue
        except Exception:
            pass
        i += 1
    best = dict(case, source="".join(lines))
    fs = [f for f in halo_eval(best)[0] if f["bucket"] == bucket]
    return {"case": best, "detail": fs[0]["detail"] if fs else failure.get("detail", "")}


def health(merged, tier):
    msgs = []
    n = sum(v for k, v in merged.hist.items() if k in ("halo:match", "halo:no-match"))
    for c in ("halo:quantified", "halo:repeated-wildcard", "halo:near-miss", "halo:sequence-pattern", "halo:match", "halo:no-match"):
        if n and merged.hist.get(c, 0) / n < 0.015:
            msgs.append(f"class {c} below 1.5% ({merged.hist.get(c, 0)}/{n})")
    return msgs
