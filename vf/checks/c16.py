"""C16 - code is treated as unreachable or pointless only when it really is.

Statement shapes over constant and unknown conditions, every leaf an observable emit(k); each shape becomes
def f(c0, c1, xs) and is run under all valuations of the unknowns before and after the dead-code rules."""
from __future__ import annotations

import ast
import itertools
import time
import warnings

from hypothesis import strategies as st

from vf import env, hyp, progcheck
from vf.acc import Acc

ID = "C16"
LEVEL = "exploration"
RULE = (
    "shapes: all statement shapes of nesting 1 (bounded exhaustive) and Hypothesis-random shapes of nesting <=3 built from if/elif/else, "
    "while/for (+else), with, try/except/finally, return, raise, break, continue, assert over constant (True/False/0/1) and unknown "
    "(c0, c1, not c0, xs) conditions and iterables ([], [0], xs), every leaf an observable emit(k), plus pointless-looking expression "
    "statements (names, constants, arithmetic, calls of a pure user function, emit hidden inside a comprehension / conditional expression "
    "/ f-string / lambda default / dict display / boolean operand); each shape is wrapped in def f(c0, c1, xs) followed by emit(END) and "
    "executed under all 12 valuations (c0, c1 in {False, True}, xs in {[], [0], [0, 1]}; fuel-bounded, non-terminating originals skipped) "
    "before and after 8 rules and format_code. Oracle: identical emitted trace and outcome (return value / exception class) under every "
    "valuation. Non-trivial = some rule changed the body of f; distinct by (shape, rule)."
)
ASSUMPTIONS = [
    "expression statements that may raise without a call (xs[0], 1 / c0) are not generated as 'pointless-looking' statements",
    "emit is unknown to the tool (defined outside the formatted source); pure() is defined inside it",
]
EXHAUSTIVE = {"quick": False, "thorough": False}

CONDS = ["True", "False", "0", "1", "c0", "c1", "not c0", "c0 and c1", "xs"]
ITERS = ["[]", "[0]", "xs", "range(2)"]
POINTLESS = ["c0", "1", "'s'", "c0 + 1", "pure(1)", "[emit(70) for _ in [0]]", "emit(71) if c0 else 0", "f'{emit(72)}'", "(lambda q=emit(73): q)",
             "pure(emit(74))", "{1: emit(75)}", "c0 and emit(76)", "-emit(77)", "emit", "[c0, 2]", "None", "...", "(emit(78) for _ in [0])",
             "xs and xs[0]", "not c0", "pure(c0) + 1", "[x for x in xs]", "{emit(79) for _ in xs}", "(c0, emit(80))[0]",
             "f'{1:>{emit(81)}}'", "f'{1.5:{emit(8)}.{emit(2)}f}'", "_ = f'{1:{emit(83)}}'", "f'{c0!r:{emit(84)}}'", "xs[::emit(1)]", "xs[emit(0):]"]
HEADER = "def pure(a):\n    return a + 1\n"
VALUATIONS = [(c0, c1, xs) for c0 in (False, True) for c1 in (False, True) for xs in ([], [0], [0, 1])]
RULES = [("fixes", "delete_unreachable_code"), ("fixes", "delete_pointless_statements"), ("fixes", "remove_dead_ifs"), ("fixes", "remove_redundant_else"),
         ("fixes", "swap_if_else"), ("fixes", "breakout_common_code_in_ifs"), ("fixes", "early_return"), ("fixes", "early_continue"),
         ("fixes", "move_before_loop"), ("main", "format_code")]


class Counter:
    def __init__(self):
        self.k = 0

    def next(self):
        self.k += 1
        return self.k


def ind(lines):
    return ["    " + l for l in lines]


def leaf(kind, c, in_loop):
    if kind == "emit":
        return [f"emit({c.next()})"]
    if kind == "return":
        return [f"return {c.next()}"]
    if kind == "raise":
        return ["raise KeyError()"]
    if kind == "break" and in_loop:
        return ["break"]
    if kind == "continue" and in_loop:
        return ["continue"]
    if kind == "pass":
        return ["pass"]
    if kind.startswith("assert:"):
        return [f"assert {kind[7:]}"]
    if kind.startswith("expr:"):
        return [kind[5:]]
    return [f"emit({c.next()})"]


LEAVES = ["emit", "return", "raise", "break", "continue", "pass", "assert:c0", "assert:False", "assert:True", "assert:1 > 2"]


def compound(kind, cond, bodies, c):
    """bodies: list of line lists."""
    if kind == "if":
        return [f"if {cond}:"] + ind(bodies[0])
    if kind == "ifelse":
        return [f"if {cond}:"] + ind(bodies[0]) + ["else:"] + ind(bodies[1])
    if kind == "ifelif":
        return [f"if {cond}:"] + ind(bodies[0]) + ["elif c1:"] + ind(bodies[1]) + ["else:"] + ind(bodies[2])
    if kind == "while":
        return [f"while {cond}:"] + ind(bodies[0])
    if kind == "whileelse":
        return [f"while {cond}:"] + ind(bodies[0]) + ["else:"] + ind(bodies[1])
    if kind == "for":
        return [f"for x in {cond}:"] + ind(bodies[0])
    if kind == "forelse":
        return [f"for x in {cond}:"] + ind(bodies[0]) + ["else:"] + ind(bodies[1])
    if kind == "with":
        return ["with ctx():"] + ind(bodies[0])
    if kind == "try":
        return ["try:"] + ind(bodies[0]) + ["except KeyError:"] + ind(bodies[1])
    if kind == "tryfinally":
        return ["try:"] + ind(bodies[0]) + ["finally:"] + ind(bodies[1])
    raise ValueError(kind)


NBODIES = {"if": 1, "ifelse": 2, "ifelif": 3, "while": 1, "whileelse": 2, "for": 1, "forelse": 2, "with": 1, "try": 2, "tryfinally": 2}
LOOPS = {"while", "whileelse", "for", "forelse"}


def wrap(lines):
    return HEADER + "def f(c0, c1, xs):\n" + "\n".join(ind(lines)) + "\n    emit(99)\n    return 'end'\n"


def core_shapes():
    """Nesting 1: every compound x condition x leaf bodies (+ one following emit), and leaf;leaf sequences."""
    for kind, n in NBODIES.items():
        conds = ITERS if kind.startswith("for") else (["-"] if kind in ("with", "try", "tryfinally") else CONDS)
        for cond in conds:
            for leaves in itertools.product(LEAVES, repeat=n):
                c = Counter()
                loop = kind in LOOPS
                bodies = []
                for i, lf in enumerate(leaves):
                    in_loop = loop and i == 0
                    b = leaf(lf, c, in_loop)
                    if lf in ("break", "continue") and not in_loop:
                        b = None
                    bodies.append(b)
                if any(b is None for b in bodies):
                    continue
                # a leading emit inside the first body makes "was the body entered" observable
                bodies[0] = [f"emit({c.next()})"] + bodies[0]
                yield wrap(compound(kind, cond, bodies, c) + [f"emit({c.next()})"])
    # nesting 2: a jump of the OUTER loop placed in the else clause (or a nested block) of an inner loop
    for outer in ("while True:", "while 1:", "for y in [0]:", "for y in xs:", "while c0:"):
        for inner in ("for x in []:", "for x in [0]:", "for x in xs:", "while c1:", "while False:"):
            for inner_body in (["emit(2)"], ["emit(2)", "break"], ["if c1:", "    break", "emit(2)"]):
                for jump in ("break", "continue", "return 5"):
                    for tail in ("raise KeyError()", "return 6", "emit(3)"):
                        yield wrap([outer] + ind(["emit(1)", inner] + ind(inner_body) + ["else:"] + ind([jump]) + [tail]) + ["emit(4)"])
                        yield wrap([outer] + ind(["emit(1)", "try:"] + ind([inner] + ind(inner_body) + ["else:"] + ind([jump])) + ["finally:", "    emit(7)", tail]) + ["emit(4)"])
    for e in POINTLESS:
        yield wrap(["emit(1)", e, "emit(2)"])
        yield wrap(["if c0:", "    " + e, "emit(2)"])
        yield wrap(["for x in xs:", "    " + e, "emit(2)"])
        yield wrap([e])


@st.composite
def random_shape(draw, depth=0, in_loop=False, c=None):
    c = c or Counter()
    n = draw(st.integers(1, 3 if depth == 0 else 2))
    lines = []
    for _ in range(n):
        k = draw(st.integers(0, 9))
        if k <= 3 or depth >= 3:
            kind = draw(st.sampled_from(LEAVES + ["emit", "emit", "expr"]))
            if kind == "expr":
                lines += [draw(st.sampled_from(POINTLESS))]
            else:
                lines += leaf(kind, c, in_loop)
        else:
            kind = draw(st.sampled_from(sorted(NBODIES)))
            cond = draw(st.sampled_from(ITERS if kind.startswith("for") else CONDS))
            bodies = []
            for i in range(NBODIES[kind]):
                # the body of a loop is "in a loop"; every other body (including a loop's else clause) inherits the enclosing loop
                bodies.append(draw(random_shape(depth=depth + 1, in_loop=True if (kind in LOOPS and i == 0) else in_loop, c=c)))
            lines += compound(kind, cond, bodies, c)
    return lines


class _Ctx:
    def __init__(self, trace):
        self.trace = trace

    def __enter__(self):
        self.trace.append("enter")
        return self

    def __exit__(self, *a):
        self.trace.append("exit")
        return False


class _Fuel(BaseException):
    pass


class _Instrument(ast.NodeTransformer):
    """Insert a fuel call at the top of every while body: the only source of non-termination in these shapes."""

    def visit_While(self, node):
        self.generic_visit(node)
        call = ast.Expr(value=ast.Call(func=ast.Name(id="__vf_fuel__", ctx=ast.Load()), args=[], keywords=[]))
        node.body.insert(0, call)
        return node


def table(src, fuel=60, timeout=6.0):
    """Run _table in a forked child: a transformed program may contain constructs (a jump out of a finally block) that
    swallow the fuel exception, so the only robust bound is to kill the child. Returns ("stuck",) on expiry."""
    import os
    import pickle
    import select
    r, w = os.pipe()
    pid = os.fork()
    if pid == 0:
        try:
            os.close(r)
            data = pickle.dumps(_table(src, fuel))
            with os.fdopen(w, "wb") as fh:
                fh.write(data)
        except BaseException:
            pass
        finally:
            os._exit(0)
    os.close(w)
    chunks = []
    deadline = time.time() + timeout
    try:
        while True:
            left = deadline - time.time()
            if left <= 0:
                os.kill(pid, 9)
                return ("stuck",)
            ready, _, _ = select.select([r], [], [], left)
            if not ready:
                continue
            chunk = os.read(r, 65536)
            if not chunk:
                break
            chunks.append(chunk)
    finally:
        os.close(r)
        try:
            os.waitpid(pid, 0)
        except ChildProcessError:
            pass
    try:
        return pickle.loads(b"".join(chunks))
    except Exception:
        return ("stuck",)


def _table(src, fuel=60):
    g = {}
    trace = []
    left = [fuel]

    def burn():
        left[0] -= 1
        if left[0] < 0:
            raise _Fuel()

    g["emit"] = lambda k: (trace.append(k), k)[1]
    g["ctx"] = lambda: _Ctx(trace)
    g["__vf_fuel__"] = burn
    with warnings.catch_warnings():
        warnings.simplefilter("ignore")
        try:
            tree = _Instrument().visit(ast.parse(src))
            ast.fix_missing_locations(tree)
            exec(compile(tree, "<c16>", "exec"), g)
        except Exception as exc:
            return ("def-error", repr(exc))
    f = g.get("f") or g.get("_f")
    if f is None:
        return ("no f",)
    out = []
    for c0, c1, xs in VALUATIONS:
        del trace[:]
        left[0] = fuel
        try:
            r = ("ret", f(c0, c1, list(xs)))
        except _Fuel:
            r = ("fuel",)
        except BaseException as exc:
            r = ("exc", type(exc).__name__)
        out.append((tuple(trace), r))
    return out


def apply_rule(modname, fname, src):
    fn = getattr(env.mod(modname), fname)
    if fname == "format_code":
        return fn(src, preserve=frozenset({"f", "emit", "ctx", "pure"}))
    return fn(src)


def swallowing_context_manager(case):
    """F-C16-06: a with block whose body raises, under a context manager that may swallow the exception (contextlib.suppress,
    pytest.raises, an __exit__ returning True) - anything but the harness's own non-swallowing managers."""
    import ast as _ast
    try:
        tree = _ast.parse(case.get("src", ""))
    except SyntaxError:
        return False
    for node in _ast.walk(tree):
        if isinstance(node, _ast.With) and any(isinstance(n, (_ast.Raise, _ast.Assert)) for n in _ast.walk(node)):
            if any("suppress" in _ast.unparse(item.context_expr) or "raises" in _ast.unparse(item.context_expr) or "swallow" in _ast.unparse(item.context_expr) for item in node.items):
                return True
    return False


PREDICATES = {"swallowing_context_manager": swallowing_context_manager}


def evaluate(case, info=None):
    src = case["src"]
    base = table(src)
    if base == ("stuck",):
        if info is not None:
            info["skipped"] = "original-does-not-terminate"
        return []
    if isinstance(base, tuple):
        raise env.HarnessError(f"bad shape: {base}\n{src}")
    fails = []
    fired = []
    rules = [tuple(case["rule"])] if case.get("rule") else RULES
    for modname, fname in rules:
        env.clear_caches()
        status, new, _ = progcheck.run_tool(apply_rule, modname, fname, src)
        if status != "ok" or not isinstance(new, str):
            continue  # C04
        if new == src:
            continue
        fired.append(fname)
        after = table(new)
        if after == ("stuck",):
            fails.append({"bucket": f"{fname}:no-termination", "case": dict(case, rule=[modname, fname]), "detail": f"--- from\n{src}\n--- to\n{new}"})
            continue
        if isinstance(after, tuple):
            fails.append({"bucket": f"{fname}:broken-output", "case": dict(case, rule=[modname, fname]), "detail": f"{after}\n--- from\n{src}\n--- to\n{new}"})
            continue
        bad = [(v, a, b) for v, a, b in zip(VALUATIONS, base, after) if a[1] != ("fuel",) and a != b]
        if bad:
            v, a, b = bad[0]
            klass = "trace-differs" if a[0] != b[0] else "outcome-differs"
            fails.append({"bucket": f"{fname}:{klass}", "case": dict(case, rule=[modname, fname]),
                          "detail": f"{len(bad)}/12 valuations differ, e.g. (c0, c1, xs)={v}: {a} -> {b}\n--- from\n{src}\n--- to\n{new}"})
    if info is not None:
        info["fired"] = fired
    return fails


def plan(tier, seed):
    nsh = 16
    q = tier == "quick"
    specs = []
    for s in range(nsh):
        specs.append({"kind": "core", "shard": s, "nshards": nsh, "stride": 4 if q else 1, "offset": seed % 4, "budget_s": 90 if q else 1500})
        specs.append({"kind": "random", "n": (2600 if q else 40000) // nsh, "seed": env.subseed(seed, ID, "rnd", s), "budget_s": 80 if q else 1500})
    return specs


def run_shard(spec):
    acc = Acc()
    t0 = time.time()

    def one(src, label):
        case = {"src": src}
        info = {}
        fails = evaluate(case, info)
        fired = info.get("fired", [])
        acc.case(case, bool(fired), [f"fired:{r}" for r in fired] + [label], sample=src)
        acc.fails(fails)

    if spec["kind"] == "core":
        for idx, src in enumerate(core_shapes()):
            if idx % spec["nshards"] != spec["shard"] or (idx // spec["nshards"]) % spec["stride"] != spec["offset"] % spec["stride"]:
                continue
            one(src, "core")
            if time.time() - t0 > spec["budget_s"]:
                acc.budget_exhausted = True
                break
        return acc

    hyp.run(random_shape(), lambda lines: one(wrap(lines), "random"), spec["n"], spec["seed"], spec["budget_s"], acc, chunk=30)
    return acc


def shrink(failure):
    bucket = failure["bucket"]

    def still(c):
        try:
            return any(f["bucket"] == bucket for f in evaluate(c))
        except env.HarnessError:
            return False

    best = progcheck.shrink_program(failure["case"], still, budget=80)
    try:
        fs = [f for f in evaluate(best) if f["bucket"] == bucket]
    except env.HarnessError:
        return None
    return {"case": best, "detail": fs[0]["detail"] if fs else failure.get("detail", "")}
