"""C15 - compile-time constant evaluation agrees with Python.

Layer 1: core.literal_value(e) against eval(e) over an exhaustive depth<=2 expression space and random
deeper expressions.  Layer 2: programs whose conditions are such expressions, through the consumers of
literal_value, judged by the execution oracle.
"""
from __future__ import annotations

import ast
import builtins
import contextlib
import io
import itertools
import sys
import time
import warnings

from hypothesis import HealthCheck, Phase, given, seed as hseed, settings, strategies as st

from vf import env, execo, hyp
from vf.acc import Acc
from vf.gen import exprs

ID = "C15"
LEVEL = "exploration"
RULE = (
    "layer 1: every expression of depth<=1 over 23 literal atoms x {4 unary, 13 binary, and/or, 10 comparison operators, "
    "pure / keyword / effectful builtin calls, constant-receiver method calls} (exhaustive), depth-2 compositions "
    "(seeded stride sample in quick, complete in thorough), chained comparisons / 3-operand boolean operators / conditional "
    "expressions over 11 atoms (exhaustive), Hypothesis-random expressions of depth<=4; oracle eval(e) with effect-recording "
    "stand-ins for effectful builtins. layer 2: if/while/and-or/comprehension/conditional-expression/early-return programs over "
    "those expressions through remove_dead_ifs, delete_unreachable_code, remove_redundant_boolop_values, "
    "simplify_boolean_expressions and format_code, judged by stdout + exception class. Non-trivial = literal_value returned a "
    "value, or eval raises / has an effect (layer 1); a consumer changed the program (layer 2). Distinct by expression/program text."
)
ASSUMPTIONS = [
    "identity tests between two non-singleton literals are not generated (outside the claim)",
    "globals/locals/vars/dir/id/hash are not generated: their value depends on the calling frame or process, so eval() in the harness is no oracle for them",
    "iterators are compared through list(), NaN through repr(); -0.0 and 0.0 are told apart by repr",
]
EXHAUSTIVE = {"quick": False, "thorough": False}

_REAL = {name: getattr(builtins, name) for name in exprs.EFFECT_NAMES if hasattr(builtins, name)}
for _n in exprs.EFFECT_NAMES:
    _REAL.setdefault(_n, None)


class _Effects:
    """Patch effectful builtins; record calls made from pyrefact code; delegate everything else."""

    HARMLESS_DELEGATE = {"compile", "__import__", "eval", "exec", "setattr", "delattr", "open", "print"}

    def __init__(self):
        self.seen = []

    def _standin(self, name):
        real = _REAL[name]

        def standin(*args, **kwargs):
            frame = sys._getframe(1)
            fname = frame.f_code.co_filename
            from_tool = "/pyrefact/" in fname.replace("\\", "/") and "site-packages" not in fname
            if from_tool and frame.f_code.co_name in ("literal_value", "<lambda>", "<listcomp>", "<genexpr>"):
                self.seen.append(name)
                return None
            if real is None:
                raise NameError(name)
            return real(*args, **kwargs)

        standin.__name__ = name
        return standin

    def __enter__(self):
        for name in exprs.EFFECT_NAMES:
            setattr(builtins, name, self._standin(name))
        return self

    def __exit__(self, *exc):
        for name, real in _REAL.items():
            if real is None:
                if hasattr(builtins, name):
                    delattr(builtins, name)
            else:
                setattr(builtins, name, real)
        return False


def py_eval(expr):
    """Python's own verdict: ("value", v) | ("raises", cls) | ("effect", names)."""
    seen = []

    def mk(name):
        def f(*a, **k):
            seen.append(name)
            return None
        return f

    b = dict(vars(builtins))
    for name in exprs.EFFECT_NAMES:
        b[name] = mk(name)
    try:
        with warnings.catch_warnings():
            warnings.simplefilter("ignore")
            code = compile(expr, "<expr>", "eval")
        v = eval(code, {"__builtins__": b})
    except BaseException as exc:
        if type(exc).__name__ == "CaseTimeout":
            raise
        return ("raises", type(exc).__name__)
    if seen:
        return ("effect", seen)
    return ("value", v)


ITER_TYPES = (type(iter([])), type(iter(())), type(reversed([])), map, filter, zip, enumerate, type(iter(range(0))),
              type(iter("")), type(iter(b"")), type(iter({})), type(iter(set())), type(iter({}.items())))


def same_value(v, w):
    if type(v) is not type(w):
        return False
    if " at 0x" in repr(w) and " at 0x" in repr(v):
        return True  # default reprs carry addresses: no oracle beyond the type
    if isinstance(v, ITER_TYPES) or (hasattr(v, "__next__") and not isinstance(v, (str, bytes))):
        try:
            return list(v) == list(w)
        except Exception:
            return False
    try:
        if v == w and repr(v) == repr(w):
            return True
        return repr(v) == repr(w) and v != v  # NaN
    except Exception:
        return repr(v) == repr(w)


def eval_case(expr):
    """Returns (failures, nontrivial, classes)."""
    core = env.mod("core")
    fails = []
    case = {"layer": 1, "expr": expr}
    kind, w = py_eval(expr)
    try:
        node = ast.parse(expr, mode="eval").body
    except SyntaxError as exc:
        raise env.HarnessError(f"generator produced invalid expression {expr!r}: {exc}")
    out_buf = io.StringIO()
    eff = _Effects()
    got = None
    try:
        with eff, contextlib.redirect_stdout(out_buf), warnings.catch_warnings():
            warnings.simplefilter("ignore")
            v = core.literal_value(node)
        got = ("value", v)
    except ValueError:
        got = ("unknown", None)
    except env.CaseTimeout:
        raise
    except BaseException as exc:
        got = ("crash", exc)
    classes = [f"python:{kind}", f"tool:{got[0]}"]
    if eff.seen or out_buf.getvalue():
        fails.append({"bucket": "effect-during-evaluation:" + ",".join(sorted(set(eff.seen)) or ["stdout"]), "case": case,
                      "detail": f"literal_value({expr!r}) called {eff.seen} / wrote {out_buf.getvalue()!r}"})
    if got[0] == "crash":
        exc = got[1]
        fails.append({"bucket": f"crash:{type(exc).__name__}:python-{kind}", "case": case,
                      "detail": f"literal_value({expr!r}) raised {exc!r}; python: {kind} {w!r}"[:500]})
    elif got[0] == "value":
        if kind == "raises":
            fails.append({"bucket": "value-for-raising-expression", "case": case,
                          "detail": f"literal_value({expr!r}) = {got[1]!r} but Python raises {w}"})
        elif kind == "effect":
            if not eff.seen:
                fails.append({"bucket": "value-for-effectful-expression", "case": case,
                              "detail": f"literal_value({expr!r}) = {got[1]!r} but evaluation has effects {w}"})
        elif not same_value(got[1], w):
            bucket = "wrong-value"
            try:
                if bool(got[1]) != bool(w):
                    bucket = "wrong-truthiness"
            except Exception:
                pass
            fails.append({"bucket": bucket, "case": case,
                          "detail": f"literal_value({expr!r}) = {got[1]!r} ({type(got[1]).__name__}) but Python gives {w!r} ({type(w).__name__})"})
    nontrivial = got[0] == "value" or kind in ("raises", "effect")
    return fails, nontrivial, classes


# ----------------------------------------------------------------------------- layer 2

PROGRAMS = {
    "if": "if ({e}):\n    print(1)\nelse:\n    print(2)\nprint(3)\n",
    "if_noelse": "print(0)\nif ({e}):\n    print(1)\nprint(3)\n",
    "elif": "def f(c):\n    if c:\n        print(1)\n    elif ({e}):\n        print(2)\n    else:\n        print(3)\nf(0)\nf(1)\n",
    "and": "def f():\n    print(9)\n    return 5\nprint(({e}) and f())\n",
    "or": "def f():\n    print(9)\n    return 5\nprint(({e}) or f())\n",
    "while": "while ({e}):\n    print(1)\n    break\nprint(2)\n",
    "comp": "print([x for x in [1, 2] if ({e})])\n",
    "ifexp": "print(1 if ({e}) else 2)\n",
    "ret": "def g():\n    if ({e}):\n        return 1\n    print(4)\n    return 2\nprint(g())\n",
    "assert": "def g():\n    assert ({e})\n    print(4)\n    return 2\ntry:\n    print(g())\nexcept AssertionError:\n    print(5)\n",
    "not": "if not ({e}):\n    print(1)\nelse:\n    print(2)\n",
    "call_and": "def f():\n    print(9)\n    return 5\nif f() and ({e}):\n    print(1)\nelse:\n    print(2)\n",
    "or_call": "def f():\n    print(9)\n    return 0\nif ({e}) or f():\n    print(1)\nelse:\n    print(2)\n",
    "andif": "def f(c):\n    if c and ({e}):\n        print(1)\n    else:\n        print(2)\nf(0)\nf(1)\n",
}
CONSUMERS = [
    ("fixes", "remove_dead_ifs"), ("fixes", "delete_unreachable_code"), ("fixes", "remove_redundant_boolop_values"),
    ("symbolic_math", "simplify_boolean_expressions"), ("fixes", "delete_pointless_statements"), ("main", "format_code"),
]


def _apply(modname, fname, src):
    fn = getattr(env.mod(modname), fname)
    if fname == "format_code":
        return fn(src, preserve=frozenset({"f", "g"}))
    return fn(src)


def program_case(case):
    """case = {"layer": 2, "tmpl": name, "expr": e, "consumer": [mod, fn]}"""
    fails = []
    src = PROGRAMS[case["tmpl"]].format(e=case["expr"])
    modname, fname = case["consumer"]
    with warnings.catch_warnings():
        warnings.simplefilter("ignore")
        try:
            ast.parse(src)
        except SyntaxError as exc:
            raise env.HarnessError(f"bad program {src!r}: {exc}")
        orig = execo.run(src)
        if orig["outcome"] in ("fuel", "compile-error"):
            return [], False, ["skipped:" + orig["outcome"]]
        out_buf = io.StringIO()
        eff = _Effects()
        env.clear_caches()
        try:
            with eff, contextlib.redirect_stdout(out_buf), env.alarm(60):
                new = _apply(modname, fname, src)
        except env.CaseTimeout:
            return [{"bucket": f"{fname}:hang", "case": case, "detail": src}], True, ["hang"]
        except BaseException as exc:
            return [{"bucket": f"{fname}:crash:{env.exc_bucket(exc)}", "case": case, "detail": f"{exc!r}\n{src}"}], True, ["crash"]
        if eff.seen or out_buf.getvalue():
            fails.append({"bucket": f"{fname}:effect-during-formatting", "case": case,
                          "detail": f"{eff.seen} / stdout {out_buf.getvalue()!r}\n{src}"})
        if new == src:
            return fails, False, ["unchanged"]
        after = execo.run(new, 50 * orig["used"] + 10_000)
    # a program that terminates normally must keep outcome and stdout; one that raises must still raise the
    # same exception class (the raising expression was to be treated as unknown) - its partial output before
    # the exception is not compared, because operand reordering of raising operands is outside this claim
    ok = execo.same(orig, after) if orig["outcome"] == "ok" else orig["outcome"] == after["outcome"]
    if not ok:
        fails.append({"bucket": f"{fname}:behaviour:{case['tmpl']}", "case": case,
                      "detail": f"--- original ({orig['outcome']}, {orig['stdout']!r})\n{src}\n--- after {fname} ({after['outcome']}, {after['stdout']!r})\n{new}"})
    return fails, True, [f"changed:{fname}"]


VALUE_CONTEXT = ("and", "or", "call_and", "or_call", "andif")
BOOLOP_FOLDERS = ("simplify_boolean_expressions", "format_code")


def boolop_folded_to_bool(case):
    """F-C15-01: a BoolOp with a constant operand goes through simplify_boolean_expressions, which replaces the
    whole BoolOp by True/False (value context) or drops the calls in its other operands."""
    if case.get("layer") != 2 or case["consumer"][1] not in BOOLOP_FOLDERS:
        return False
    if case["tmpl"] in VALUE_CONTEXT:
        return True
    # a BoolOp with a constant operand nested inside the expression is in a value context as well
    try:
        tree = ast.parse(case["expr"], mode="eval")
    except SyntaxError:
        return False
    # any operand may become a constant through earlier folding (conditional expressions, comparisons), so every
    # and/or inside the expression is affected
    return any(isinstance(n, ast.BoolOp) for n in ast.walk(tree))


def singleton_eq(case):
    """F-C15-08: '== True/False/None' (or !=) reaches singleton_eq_comparison, which turns it into an identity test."""
    if case.get("layer") != 2 or case["consumer"][1] != "format_code":
        return False
    try:
        tree = ast.parse(case["expr"], mode="eval")
    except SyntaxError:
        return False
    for n in ast.walk(tree):
        if isinstance(n, ast.Compare) and any(isinstance(o, (ast.Eq, ast.NotEq)) for o in n.ops):
            return True  # any operand may fold into a singleton constant first
    return False


PREDICATES = {"boolop_folded_to_bool": boolop_folded_to_bool, "singleton_eq": singleton_eq}


def evaluate(case):
    if case.get("layer") == 2:
        return program_case(case)[0]
    return eval_case(case["expr"])[0]


# ----------------------------------------------------------------------------- plan

def plan(tier, seed):
    nsh = 16
    specs = []
    for s in range(nsh):
        specs.append({"kind": "d1", "shard": s, "nshards": nsh})
        specs.append({"kind": "chained", "shard": s, "nshards": nsh})
        stride = 16 if tier == "quick" else 1
        specs.append({"kind": "d2", "shard": s, "nshards": nsh, "stride": stride, "offset": seed % stride,
                      "budget_s": 60 if tier == "quick" else 1200})
        specs.append({"kind": "deep", "shard": s, "n": (4000 if tier == "quick" else 100000) // nsh,
                      "seed": env.subseed(seed, ID, "deep", s), "budget_s": 60 if tier == "quick" else 600})
        specs.append({"kind": "prog", "shard": s, "nshards": nsh, "n": (6400 if tier == "quick" else 60000) // nsh,
                      "seed": env.subseed(seed, ID, "prog", s), "budget_s": 75 if tier == "quick" else 1200})
    return specs


def interesting_exprs():
    """Expressions for layer 2: a seed-independent list mixing every outcome class."""
    out = []
    for e in exprs.depth1(exprs.SMALL_ATOMS):
        out.append(e)
    return out


def run_shard(spec):
    acc = Acc()
    t0 = time.time()
    kind = spec["kind"]

    def one(expr):
        with env.alarm(20):
            try:
                fails, nontrivial, classes = eval_case(expr)
            except env.CaseTimeout:
                fails, nontrivial, classes = [{"bucket": "hang", "case": {"layer": 1, "expr": expr}, "detail": expr}], True, ["hang"]
        acc.case({"layer": 1, "expr": expr}, nontrivial, classes, sample=expr)
        acc.fails(fails)

    if kind in ("d1", "chained", "d2"):
        if kind == "d1":
            gen = exprs.depth1()
        elif kind == "chained":
            gen = exprs.chained()
        else:
            gen = exprs.depth2_from(list(exprs.depth1_small()))
        stride = spec.get("stride", 1)
        for idx, e in enumerate(gen):
            if idx % spec["nshards"] != spec["shard"]:
                continue
            if stride > 1 and (idx // spec["nshards"]) % stride != spec["offset"]:
                continue
            one(e)
            if "budget_s" in spec and time.time() - t0 > spec["budget_s"]:
                acc.budget_exhausted = True
                break
        return acc

    if kind == "deep":
        def go(e):
            # cap: only expressions Python itself evaluates quickly are in the domain
            t1 = time.time()
            try:
                with env.alarm(2):
                    py_eval(e)
            except env.CaseTimeout:
                acc.hist["skipped:expensive-for-python"] += 1
                return
            if time.time() - t1 > 0.05:
                acc.hist["skipped:expensive-for-python"] += 1
                return
            one(e)

        hyp.run(exprs.deep(depth=4), go, spec["n"], spec["seed"], spec["budget_s"], acc, chunk=250)
        return acc

    # programs
    pool = interesting_exprs()

    def go2(data):
        if data.draw(st.integers(0, 3)) == 0:
            e = data.draw(exprs.deep(depth=2))
        else:
            e = data.draw(st.sampled_from(pool))
        case = {"layer": 2, "tmpl": data.draw(st.sampled_from(sorted(PROGRAMS))), "expr": e,
                "consumer": list(data.draw(st.sampled_from(CONSUMERS)))}
        if boolop_folded_to_bool(case):
            acc.excluded["F-C15-01"] += 1
            case["consumer"] = ["fixes", "remove_redundant_boolop_values"]
        if singleton_eq(case):
            acc.excluded["F-C15-08"] += 1
            case["consumer"] = ["fixes", "remove_dead_ifs"]
        fails, nontrivial, classes = program_case(case)
        acc.case(case, nontrivial, classes, sample=PROGRAMS[case["tmpl"]].format(e=e) + "# via " + case["consumer"][1])
        acc.fails(fails)

    hyp.run(st.data(), go2, spec["n"], spec["seed"], spec["budget_s"], acc, chunk=100)
    return acc


def shrink(failure):
    """Expressions are tiny already; try replacing the expression by its sub-expressions."""
    case = failure["case"]
    bucket = failure["bucket"]
    best = case
    changed = True
    while changed:
        changed = False
        try:
            node = ast.parse(best["expr"], mode="eval").body
        except SyntaxError:
            break
        for sub in ast.iter_child_nodes(node):
            if not isinstance(sub, ast.expr):
                continue
            cand = dict(best, expr=ast.unparse(sub))
            try:
                if any(f["bucket"] == bucket for f in evaluate(cand)):
                    best, changed = cand, True
                    break
            except BaseException:
                continue
    fs = [f for f in evaluate(best) if f["bucket"] == bucket]
    return {"case": best, "detail": fs[0]["detail"] if fs else failure.get("detail", "")}


def health(merged, tier):
    msgs = []
    for c in ("python:value", "python:raises", "python:effect", "tool:value", "tool:unknown"):
        if merged.hist.get(c, 0) < 50:
            msgs.append(f"class {c} has only {merged.hist.get(c, 0)} cases")
    return msgs
