"""C10 - rewrites are scheduled transactionally and never overlap.

Synthetic rules are driven through processing.fix / processing.chain (public) and the anchored
_schedule_rewrites / _apply_rewrites pair.  A reference model written from the property text says,
for every transaction, whether it MUST be dropped, MAY be dropped or MUST be accepted; the text
returned by fix/chain must be the splice of exactly the accepted rewrites, or the unchanged input
when an accepted replacement does not parse.
"""
from __future__ import annotations

import ast
import itertools
import re
import time

from hypothesis import HealthCheck, Phase, given, seed as hseed, settings, strategies as st

from vf import env, hyp
from vf.acc import Acc

ID = "C10"
LEVEL = "exploration"
RULE = (
    "case = base source (3-9 unique-token statements, optionally nested in if/def/for/while/with/try, some "
    "lines with '# pyrefact: ignore') + 1-8 rewrites (node / Range / zero-width / insertion targets; marker text, "
    "AST, deletion or unparsable replacements) with every assignment to transactions and 1-3 rule groups; "
    "core = bounded-exhaustive configurations of <=2 (quick) / <=3 sampled (thorough) rewrites over a fixed base, "
    "halo = Hypothesis sets. Non-trivial = >=2 transactions and at least one conflict (self-overlap, cross-overlap, "
    "duplicate, ignored line) or an unparsable replacement; distinct by hash of the case."
)
ASSUMPTIONS = [
    "replacements are type-correct by construction, so a pass result is unparsable iff an unparsable replacement was accepted",
    "overlap of half-open ranges; a zero-width range conflicts only when strictly inside another range",
    "expected text is compared modulo whitespace and inserted 'pass' (layout of the splice is C11/C14 territory)",
]
EXHAUSTIVE = {"quick": False, "thorough": False}

HDRS = {
    None: ("", ""),
    "if": ("if c{b}:\n", ""),
    "def": ("def g{b}():\n", ""),
    "for": ("for v{b} in r{b}:\n", ""),
    "while": ("while w{b}:\n", ""),
    "with": ("with m{b}:\n", ""),
    "try": ("try:\n", "finally:\n    pass\n"),
}
IGN = "  # pyrefact: ignore"


class Tag(str):
    """A str that remembers which generated rewrite it belongs to (identity survives scheduling)."""


def build_source(layout):
    """layout: list of [hdr, [ignore flags]] -> (source, stmts) with exact token offsets."""
    out = []
    pos = 0
    stmts = []
    i = 0
    for b, (hdr, flags) in enumerate(layout):
        pre, post = HDRS[hdr]
        pre = pre.format(b=b)
        out.append(pre)
        pos += len(pre)
        ind = "    " if hdr else ""
        for ign in flags:
            text = f"a{i} = f{i}(x{i}, y{i})"
            line = ind + text + (IGN if ign else "") + "\n"
            s = pos + len(ind)
            info = {
                "i": i, "line_start": pos, "line_end": pos + len(line), "ignore": bool(ign), "block": b,
                "lineno": "".join(out).count("\n") + 1, "col": len(ind),
                "stmt": (s, s + len(text)),
            }
            c0 = s + len(f"a{i} = ")
            info["call"] = (c0, s + len(text))
            info["fname"] = (c0, c0 + len(f"f{i}"))
            x0 = c0 + len(f"f{i}(")
            info["x"] = (x0, x0 + len(f"x{i}"))
            y0 = x0 + len(f"x{i}, ")
            info["y"] = (y0, y0 + len(f"y{i}"))
            stmts.append(info)
            out.append(line)
            pos += len(line)
            i += 1
        out.append(post)
        pos += len(post)
    return "".join(out), stmts


def target_range(stmts, t):
    k = t["kind"]
    s = stmts[t["i"]]
    if k in ("stmt", "call", "fname", "x", "y"):
        return s[k]
    if k == "span":
        return (s["stmt"][0], stmts[t["j"]]["stmt"][1])
    if k in ("zw_stmt", "insert"):
        return (s["stmt"][0], s["stmt"][0])
    if k == "zw_call":
        return (s["call"][0], s["call"][0])
    if k == "zw_mid":
        return (s["y"][0], s["y"][0])
    raise ValueError(k)


def overlaps(a, b):
    return a[0] < b[1] and b[0] < a[1]


def new_text(t, n, k):
    """Replacement text for rewrite k (marker M<k>), type-correct for the target."""
    kind = t["kind"]
    m = f"M{k}"
    if n == "invalid":
        return {"zw_stmt": f"{m}(; ", "zw_call": f"{m}( + ", "zw_mid": f"{m}(, ", "insert": f"{m}("}.get(kind, f"{m}(")
    if n in ("delete", "none"):
        return ""
    if kind in ("stmt", "span"):
        return f"{m} = 0"
    if kind == "zw_stmt":
        return f"{m} = 0; "
    if kind == "zw_call":
        return f"{m} + "
    if kind == "zw_mid":
        return f"{m}, "
    if kind == "insert":
        return f"{m} = 0"
    return m


def find_node(tree, rng, source, kind):
    """Pick the AST node of the base whose text is exactly source[rng] (harness-side, by ast offsets)."""
    want = source[rng[0]:rng[1]]
    typ = {"stmt": ast.Assign, "call": ast.Call, "fname": ast.Name, "x": ast.Name, "y": ast.Name}[kind]
    lines = source.splitlines(keepends=True)
    starts = list(itertools.accumulate([0] + [len(l) for l in lines]))
    for node in ast.walk(tree):
        if isinstance(node, typ) and hasattr(node, "lineno"):
            s = starts[node.lineno - 1] + node.col_offset
            e = starts[node.end_lineno - 1] + node.end_col_offset
            if (s, e) == tuple(rng):
                assert source[s:e] == want
                return node
    raise env.HarnessError(f"no node for {kind} {rng}")


def materialise(case):
    core = env.mod("core")
    source, stmts = build_source(case["layout"])
    tree = ast.parse(source)
    rewrites = []
    for k, r in enumerate(case["rewrites"]):
        t, n = r["t"], r["n"]
        mk = r.get("dup_of", k)
        if mk != k:
            t, n = case["rewrites"][mk]["t"], case["rewrites"][mk]["n"]
        rng = tuple(target_range(stmts, t))
        text = new_text(t, n, mk)
        kind = t["kind"]
        # old
        if kind == "insert":
            old = None
        elif t.get("node") and kind in ("stmt", "call", "fname", "x", "y"):
            old = find_node(tree, rng, source, kind)
        else:
            old = core.Range(*rng)
        # new
        if n == "none":
            new = None
        elif n == "delete":
            new = ""
        elif kind == "insert":
            s = stmts[t["i"]]
            if n == "invalid":
                # an insertion whose unparse does not parse in place: a bare 'return' outside a function is
                # still syntactically valid, so use a node that unparses to an unclosed bracket via a Name
                new = ast.Expr(value=ast.Name(id=f"M{mk}(", ctx=ast.Load()), lineno=s["lineno"], col_offset=s["col"])
            else:
                new = ast.Assign(
                    targets=[ast.Name(id=f"M{mk}", ctx=ast.Store())], value=ast.Constant(value=0),
                    lineno=s["lineno"], col_offset=s["col"],
                )
        elif n == "ast" and kind in ("stmt", "span"):
            new = ast.parse(text).body[0]
        elif n == "ast" and kind in ("call", "fname", "x", "y"):
            new = ast.Name(id=f"M{mk}", ctx=ast.Load())
        else:
            new = Tag(text)
        if isinstance(new, (Tag, ast.AST)):
            try:
                new._vf_k = k
            except AttributeError:
                pass
        is_invalid = n == "invalid"
        rewrites.append({
            "k": k, "g": r["g"], "txn": r.get("txn"), "range": rng, "old": old, "new": new, "text": text,
            "invalid": is_invalid, "marker": f"M{mk}" if text else None, "mk": mk,
            "stmt_new": isinstance(new, ast.stmt),
        })
    return source, stmts, rewrites


def make_rules(source, rewrites, ngroups):
    rules = []
    for g in range(ngroups):
        mine = [r for r in rewrites if r["g"] == g]

        def rule(source, _mine=mine, _base=source):
            if source != _base:
                return
            for r in _mine:
                if r["txn"] is None:
                    yield r["old"], r["new"]
                else:
                    yield r["old"], r["new"], r["txn"]

        rule.__name__ = f"synthetic_rule_{g}"
        rules.append(rule)
    return rules


def transactions(rewrites):
    """Model transactions in precedence order: group, then default (yield order), then explicit number."""
    txns = {}
    for r in rewrites:
        key = (r["g"], 0, r["k"]) if r["txn"] is None else (r["g"], 1, r["txn"])
        txns.setdefault(key, []).append(r)
    return sorted(txns.items())


def transactions_key(r):
    return (r["g"], 0, r["k"]) if r["txn"] is None else (r["g"], 1, r["txn"])


def ignored_touch(stmts, rng):
    for s in stmts:
        if s["ignore"] and overlaps(rng, (s["line_start"], s["line_end"])):
            return True
    return False


def sig(r):
    new = r["new"]
    if isinstance(new, ast.AST):
        return (r["range"], "ast", id(new) if False else ast.dump(new))
    return (r["range"], "txt", new or "")


def splice(source, accepted):
    out = source
    for r in sorted(accepted, key=lambda r: (r["range"], r["text"]), reverse=True):
        s, e = r["range"]
        text = r["text"] + ("\n" if r["stmt_new"] and r["old"] is None else "")
        out = out[:s] + text + out[e:]
    return out


def norm(text):
    text = re.sub(r"\bpass\b", "", text)
    return re.sub(r"\s+", "", text)


def evaluate(case):
    processing = env.mod("processing")
    fails = []

    def fail(bucket, detail):
        fails.append({"bucket": bucket, "case": case, "detail": detail})

    source, stmts, rewrites = materialise(case)
    ngroups = max(r["g"] for r in rewrites) + 1
    rules = make_rules(source, rewrites, ngroups)
    txns = transactions(rewrites)

    # ---- observe the scheduler
    try:
        sched = processing._schedule_rewrites(source, [(rule, [source], {}) for rule in rules])
    except Exception as exc:
        fail("exception:" + env.exc_bucket(exc), repr(exc))
        return fails
    seen = set()
    unmapped = []
    for t, (rng, rw) in sched:
        k = getattr(rw.new, "_vf_k", None)
        if k is None:
            cands = [
                r for r in rewrites
                if r["g"] == t.group_number and tuple(rng) == r["range"] and not r["text"] and r["k"] not in seen
                and (r["txn"] is None if t.transaction_number < 0 else r["txn"] == t.transaction_number)
            ]
            if not cands:
                unmapped.append((t, tuple(rng)))
                continue
            k = cands[0]["k"]
        if tuple(rng) != rewrites[k]["range"]:
            fail("range-mismatch", f"rewrite {k}: scheduler range {tuple(rng)} != reference {rewrites[k]['range']}")
        seen.add(k)
    if unmapped:
        fail("scheduled-unknown-rewrite", repr(unmapped))
        return fails

    # identical rewrites inside one transaction are collapsed by the implementation; treat twins as seen
    for key, rs in txns:
        for r in rs:
            if r["k"] not in seen and any(o["k"] in seen and sig(o) == sig(r) and o is not r and (
                    not isinstance(o["new"], ast.AST) or o["new"] is r["new"]) for o in rs):
                seen.add(r["k"])

    accepted_keys = []
    status = {}
    for key, rs in txns:
        got = [r["k"] in seen for r in rs]
        if all(got):
            status[key] = True
        elif not any(got):
            status[key] = False
        else:
            fail("partial-transaction", f"transaction {key}: scheduled {got}")
            status[key] = None

    # ---- reference model: must-drop / may-drop / must-accept, in precedence order
    earlier = []
    for key, rs in txns:
        ranges = [r["range"] for r in rs]
        # identical rewrites yielded twice inside one transaction may be collapsed into one (the
        # implementation does so); only an overlap between two different rewrites forces the drop
        self_overlap = any(
            overlaps(a["range"], b["range"]) and sig(a) != sig(b) for a, b in itertools.combinations(rs, 2)
        )
        twin_overlap = any(overlaps(a, b) for a, b in itertools.combinations(ranges, 2))
        ignored = any(ignored_touch(stmts, rg) for rg in ranges)
        ov_accepted = any(
            overlaps(a["range"], b["range"]) for ek, ers in earlier if status[ek] for a in rs for b in ers
        )
        ov_any = any(overlaps(a["range"], b["range"]) for ek, ers in earlier for a in rs for b in ers)
        dup = any([sig(r) for r in ers] == [sig(r) for r in rs] for ek, ers in earlier)
        must_drop = self_overlap or ignored or ov_accepted
        may_drop = must_drop or ov_any or dup or twin_overlap
        st_ = status[key]
        if st_ is True and must_drop:
            why = "self-overlap" if self_overlap else "ignored-line" if ignored else "overlaps-accepted"
            fail(f"must-drop-accepted:{why}", f"transaction {key}")
        if st_ is False and not may_drop:
            fail("must-accept-dropped", f"transaction {key}")
        earlier.append((key, rs))

    accepted = []
    accepted_all = []
    for key, rs in txns:
        if status[key]:
            # within an accepted transaction identical rewrites may be applied once (the implementation
            # collapses equal text rewrites and keeps equal-looking AST objects apart: both are allowed)
            uniq = {}
            for r in rs:
                uniq.setdefault(sig(r), r)
            accepted.extend(uniq.values())
            accepted_all.extend(rs)
    has_invalid = any(r["invalid"] for r in accepted)
    if has_invalid or not accepted:
        expected = source
        alternatives = {norm(source)}
    else:
        expected = splice(source, accepted)
        alternatives = set()
        for collapse_text, collapse_ast in itertools.product((True, False), repeat=2):
            chosen, seen_sigs = [], set()
            for r in accepted_all:
                collapse = collapse_ast if isinstance(r["new"], ast.AST) else collapse_text
                key = (transactions_key(r), sig(r))
                if collapse and key in seen_sigs:
                    continue
                seen_sigs.add(key)
                chosen.append(r)
            alternatives.add(norm(splice(source, chosen)))

    # ---- observe the text: anchored pair, then the public decorators
    outs = {}
    try:
        outs["apply"] = processing._apply_rewrites(source, sched)
        if ngroups == 1:
            outs["fix"] = processing.fix(rules[0])(source)
            outs["fix1"] = processing.fix(rules[0], max_iter=1)(source)
        outs["chain"] = processing.chain(rules)(source)
    except Exception as exc:
        fail("exception:" + env.exc_bucket(exc), repr(exc))
        return fails
    for name, out in outs.items():
        if not isinstance(out, str):
            fail(f"{name}:not-a-string", repr(out))
            continue
        if expected == source:
            if out != source:
                why = "rollback-missing" if has_invalid else "text-changed-with-nothing-accepted"
                fail(f"{name}:{why}", f"expected unchanged input, got\n{out}")
            continue
        if out == source:
            fail(f"{name}:spurious-rollback", f"accepted {[r['k'] for r in accepted]} but output is the input")
            continue
        if norm(out) not in alternatives:
            # classify by markers for a readable bucket
            miss = [r["marker"] for r in accepted if r["marker"] and len(re.findall(rf"\b{r['marker']}\b", out)) != 1]
            extra = [
                r["marker"] for r in rewrites
                if r["marker"] and r not in accepted and r["mk"] not in {a["mk"] for a in accepted}
                and re.search(rf"\b{r['marker']}\b", out)
            ]
            why = "marker-missing-or-repeated" if miss else "dropped-marker-present" if extra else "text"
            fail(f"{name}:splice:{why}", f"expected (modulo whitespace/pass)\n{expected}\n--- got\n{out}")
        else:
            try:
                ast.parse(out)
            except SyntaxError:
                fail(f"{name}:output-invalid", out)
    return fails


def classes(case):
    source, stmts, rewrites = materialise(case)
    txns = transactions(rewrites)
    cls = []
    allr = [(key, r) for key, rs in txns for r in rs]
    if any(r["invalid"] for r in rewrites):
        cls.append("invalid-replacement")
    if any(ignored_touch(stmts, r["range"]) for r in rewrites):
        cls.append("ignored-line")
    if any(overlaps(a["range"], b["range"]) for (ka, a), (kb, b) in itertools.combinations(allr, 2) if ka == kb):
        cls.append("self-overlap")
    if any(overlaps(a["range"], b["range"]) for (ka, a), (kb, b) in itertools.combinations(allr, 2) if ka != kb):
        cls.append("cross-overlap")
    if any("dup_of" in r and r["dup_of"] != i for i, r in enumerate(case["rewrites"])):
        cls.append("duplicate")
    if any(len(rs) > 1 for _, rs in txns):
        cls.append("multi-rewrite-transaction")
    if len({r["g"] for r in rewrites}) > 1:
        cls.append("multi-group")
    if any(r["range"][0] == r["range"][1] for r in rewrites):
        cls.append("zero-width")
    nontrivial = len(txns) >= 2 and bool(set(cls) & {"invalid-replacement", "ignored-line", "self-overlap", "cross-overlap", "duplicate"})
    return nontrivial, cls


def _resolved(case):
    out = []
    for r in case["rewrites"]:
        src = case["rewrites"][r["dup_of"]] if "dup_of" in r else r
        out.append((src["t"], src["n"]))
    return out


def zw_at_deleted_stmt(case):
    """F-C10-01: a zero-width rewrite sits at the start offset of a statement that another rewrite deletes."""
    rs = _resolved(case)
    deleted = {t["i"] for t, n in rs if t["kind"] == "stmt" and n in ("delete", "none")}
    return any(t["kind"] in ("zw_stmt", "insert") and t["i"] in deleted for t, n in rs)


PREDICATES = {"zw_at_deleted_stmt": zw_at_deleted_stmt}


# --------------------------------------------------------------------------- generators

EXPR_KINDS = ["call", "fname", "x", "y"]


@st.composite
def layouts(draw):
    nblocks = draw(st.integers(1, 4))
    layout = []
    total = 0
    for _ in range(nblocks):
        hdr = draw(st.sampled_from([None, None, "if", "def", "for", "while", "with", "try"]))
        n = draw(st.integers(1, 3))
        flags = [draw(st.integers(0, 6)) == 0 for _ in range(n)]
        layout.append([hdr, flags])
        total += n
    return layout, total


@st.composite
def targets(draw, layout, total):
    kind = draw(st.sampled_from(["stmt", "stmt", "call", "fname", "x", "y", "span", "zw_stmt", "zw_call", "zw_mid", "insert"]))
    i = draw(st.integers(0, total - 1))
    t = {"kind": kind, "i": i}
    if kind == "span":
        # a Range from statement i to a later statement of the same block
        blocks = []
        idx = 0
        for hdr, flags in layout:
            blocks.append(list(range(idx, idx + len(flags))))
            idx += len(flags)
        blk = next(b for b in blocks if i in b)
        t["j"] = draw(st.sampled_from([j for j in blk if j >= i]))
    if kind in ("stmt", "call", "fname", "x", "y"):
        t["node"] = draw(st.booleans())
    return t


@st.composite
def rewrite_sets(draw):
    layout, total = draw(layouts())
    n = draw(st.integers(1, 8))
    ngroups = draw(st.sampled_from([1, 1, 2, 3]))
    rewrites = []
    for k in range(n):
        if rewrites and draw(st.integers(0, 7)) == 0:
            src = draw(st.integers(0, len(rewrites) - 1))
            src = rewrites[src].get("dup_of", src)
            r = {"t": rewrites[src]["t"], "n": rewrites[src]["n"], "dup_of": src}
        else:
            # bias towards the statements already targeted so that conflicts are common
            if rewrites and draw(st.booleans()):
                base_i = rewrites[draw(st.integers(0, len(rewrites) - 1))]["t"]["i"]
                t = draw(targets(layout, total))
                if t["kind"] != "span":
                    t["i"] = base_i
                else:
                    t = {"kind": "stmt", "i": base_i, "node": draw(st.booleans())}
            else:
                t = draw(targets(layout, total))
            if t["kind"] in ("stmt", "span"):
                nk = draw(st.sampled_from(["text", "ast", "delete", "none", "text", "invalid"] if t["kind"] == "stmt" else ["text", "ast", "invalid"]))
            elif t["kind"] in EXPR_KINDS:
                nk = draw(st.sampled_from(["text", "ast", "text", "ast", "invalid"]))
            elif t["kind"] == "insert":
                nk = draw(st.sampled_from(["ast", "ast", "ast", "invalid"]))
            else:
                nk = draw(st.sampled_from(["text", "text", "text", "invalid"]))
            r = {"t": t, "n": nk}
        r["g"] = draw(st.integers(0, ngroups - 1))
        r["txn"] = draw(st.sampled_from([None, None, 0, 1, 2]))
        rewrites.append(r)
    # make group numbers dense
    used = sorted({r["g"] for r in rewrites})
    for r in rewrites:
        r["g"] = used.index(r["g"])
    return {"layout": layout, "rewrites": rewrites}


CORE_LAYOUT = [[None, [False]], ["if", [False, True]], [None, [False]]]


def core_targets():
    ts = []
    for i in range(4):
        ts.append(({"kind": "stmt", "i": i, "node": True}, ["ast", "none", "invalid"]))
        ts.append(({"kind": "call", "i": i, "node": False}, ["text"]))
        ts.append(({"kind": "x", "i": i, "node": True}, ["ast"]))
        ts.append(({"kind": "zw_stmt", "i": i}, ["text"]))
    ts.append(({"kind": "span", "i": 1, "j": 2}, ["text"]))
    ts.append(({"kind": "insert", "i": 1}, ["ast"]))
    ts.append(({"kind": "zw_mid", "i": 0}, ["text", "invalid"]))
    return [(t, n) for t, ns in ts for n in ns]


def core_cases(nrew):
    tn = core_targets()
    if nrew == 2:
        cfgs = [  # (groups, txns)
            ((0, 0), (None, None)), ((0, 0), (0, 0)), ((0, 0), (0, 1)), ((0, 0), (1, 0)), ((0, 0), (0, None)),
            ((0, 1), (None, None)), ((0, 1), (0, 0)), ((1, 0), (None, None)),
        ]
        for (t1, n1), (t2, n2) in itertools.product(tn, tn):
            for gs, txs in cfgs:
                yield {"layout": CORE_LAYOUT, "rewrites": [
                    {"t": t1, "n": n1, "g": gs[0], "txn": txs[0]}, {"t": t2, "n": n2, "g": gs[1], "txn": txs[1]}]}
    else:
        cfgs = [
            ((0, 0, 0), (0, 0, 1)), ((0, 0, 0), (0, 1, 1)), ((0, 0, 0), (1, 0, 1)), ((0, 0, 0), (None, 0, 0)),
            ((0, 0, 1), (0, 0, 0)), ((0, 1, 1), (0, 0, 0)), ((0, 1, 0), (0, 0, 0)), ((0, 0, 0), (None, None, None)),
        ]
        for (t1, n1), (t2, n2), (t3, n3) in itertools.product(tn, tn, tn):
            for gs, txs in cfgs:
                yield {"layout": CORE_LAYOUT, "rewrites": [
                    {"t": t1, "n": n1, "g": gs[0], "txn": txs[0]}, {"t": t2, "n": n2, "g": gs[1], "txn": txs[1]},
                    {"t": t3, "n": n3, "g": gs[2], "txn": txs[2]}]}


def _dense(case):
    used = sorted({r["g"] for r in case["rewrites"]})
    for r in case["rewrites"]:
        r["g"] = used.index(r["g"])
    return case


def plan(tier, seed):
    nsh = 16
    halo = 20000 if tier == "quick" else 300000
    specs = []
    for s in range(nsh):
        specs.append({"kind": "core2", "shard": s, "nshards": nsh, "budget_s": 60 if tier == "quick" else 600})
        specs.append({"kind": "halo", "shard": s, "n": halo // nsh, "seed": env.subseed(seed, ID, "halo", s),
                      "budget_s": 60 if tier == "quick" else 900})
        if tier == "thorough":
            specs.append({"kind": "core3", "shard": s, "nshards": nsh, "stride": 7, "offset": seed % 7, "budget_s": 900})
    return specs


def _one(acc, case):
    if zw_at_deleted_stmt(case):
        # known finding F-C10-01: excluded by construction (the deletion becomes a replacement), counted
        acc.excluded["F-C10-01"] += 1
        for r in case["rewrites"]:
            if r["t"]["kind"] == "stmt" and r["n"] in ("delete", "none"):
                r["n"] = "text"
    env.clear_caches()
    try:
        nontrivial, cls = classes(case)
        fails = evaluate(case)
    except env.HarnessError:
        raise
    acc.case(case, nontrivial, cls)
    acc.fails(fails)


def run_shard(spec):
    acc = Acc()
    t0 = time.time()
    if spec["kind"] in ("core2", "core3"):
        gen = core_cases(2 if spec["kind"] == "core2" else 3)
        stride = spec.get("stride", 1)
        for idx, case in enumerate(gen):
            if idx % spec["nshards"] != spec["shard"]:
                continue
            if stride > 1 and (idx // spec["nshards"]) % stride != spec["offset"]:
                continue
            _one(acc, _dense(case))
            if time.time() - t0 > spec["budget_s"]:
                acc.budget_exhausted = True
                break
        return acc

    hyp.run(rewrite_sets(), lambda case: _one(acc, case), spec["n"], spec["seed"], spec["budget_s"], acc, chunk=400)
    return acc


def shrink(failure):
    """Greedy structural shrink: drop rewrites, drop statements' ignore flags, simplify transactions."""
    bucket = failure["bucket"]
    case = failure["case"]

    def still(c):
        try:
            env.clear_caches()
            return any(f["bucket"] == bucket for f in evaluate(c))
        except Exception:
            return False

    import copy

    changed = True
    while changed:
        changed = False
        for k in range(len(case["rewrites"]) - 1, -1, -1):
            if len(case["rewrites"]) <= 1:
                break
            c = copy.deepcopy(case)
            del c["rewrites"][k]
            for r in c["rewrites"]:
                if "dup_of" in r:
                    if r["dup_of"] == k:
                        r.pop("dup_of")
                    elif r["dup_of"] > k:
                        r["dup_of"] -= 1
            _dense(c)
            if still(c):
                case, changed = c, True
        for k, r in enumerate(case["rewrites"]):
            for field, val in (("txn", None), ("g", 0)):
                if r.get(field) != val:
                    c = copy.deepcopy(case)
                    c["rewrites"][k][field] = val
                    _dense(c)
                    if still(c):
                        case, changed = c, True
    fs = [f for f in evaluate(case) if f["bucket"] == bucket]
    return {"case": case, "detail": fs[0]["detail"] if fs else failure.get("detail", "")}


def health(merged, tier):
    msgs = []
    n = max(1, merged.evaluations)
    for c in ("invalid-replacement", "ignored-line", "self-overlap", "cross-overlap", "duplicate", "multi-group", "zero-width"):
        if merged.hist.get(c, 0) / n < 0.02:
            msgs.append(f"class {c} below 2% ({merged.hist.get(c, 0)}/{n})")
    return msgs
