"""C08 - preserved names survive, within a file and across files."""
from __future__ import annotations

import ast
import contextlib
import io
import os
import shutil
import sys
import tempfile
import types
import warnings

from hypothesis import strategies as st

from vf import env, hyp, progcheck
from vf.acc import Acc

ID = "C08"
LEVEL = "exploration"
RULE = (
    "(library module, client module, mode): libraries are generated from definition templates - functions, duplicate function pairs, "
    "module variables, classes with instance / self-less / static / class methods, properties, class and instance attributes, "
    "subclasses - whose names are drawn adversarially (snake_case, camelCase, CapWords, UPPER, leading underscore, one letter) and of which "
    "a random subset is used inside the library (main(), __main__ guard, module-level print); the client uses a random subset of the "
    "definitions by from-import, 'import lib' / 'import lib as L' module attribute, and attribute access on classes and instances. Modes: "
    "format_code(lib, preserve=P) once and twice (multi-pass) with P = the names the client uses (taken from the generator's metadata, "
    "not from pyrefact's extraction), the command line 'pyrefact lib.py --preserve client.py' on a temp directory (file-level passes "
    "included) and 'pyrefact --from-stdin --preserve client.py'. Oracle: (1) every preserved name that the original library defined (module-level binding or member of a preserved class) "
    "is still defined at the same place in the result, (2) executing the client against the rewritten library yields the same stdout and "
    "exception class as against the original. Non-trivial = the library text changed AND at least one definition that is not preserved "
    "was deleted or renamed (the tool had something to delete/rename and chose among preserved and unpreserved names); distinct by case."
)
ASSUMPTIONS = [
    "a preserved method name is always accompanied by its (preserved) class: the client reaches methods through an imported class",
    "dynamic access (getattr with computed names, star imports of the library) is not generated: the property lists from-import, module attribute and attribute access",
]
EXHAUSTIVE = {"quick": False, "thorough": False}
PREDICATES = {}

FUNC_NAMES = ["compute_total", "computeTotal", "ComputeTotal", "_hidden_helper", "f", "GetValue", "run_all", "helper", "parseInput", "do_it", "X", "fooBar_baz",
              "load", "_x", "mainLoop", "process_item", "unused_thing", "Transform"]
VAR_NAMES = ["max_size", "maxSize", "MAX_SIZE", "_limit", "Default", "default_value", "k", "TABLE", "lookup_table", "someConstant", "_CACHE", "config"]
CLASS_NAMES = ["Widget", "my_class", "dataHolder", "_Private", "HTTPThing", "base", "Node", "helper_cls"]
MEMBER_NAMES = ["value_of", "valueOf", "Compute", "_inner", "go", "make", "fromThing", "STEP", "step_size", "stepSize", "size", "name", "Total", "do_work", "x"]


@st.composite
def library(draw):
    """Returns (source, defs) with defs: list of dict(kind, name, owner, use) - use is an expression over accessor prefix {A}."""
    fn = draw(st.permutations(FUNC_NAMES))
    vn = draw(st.permutations(VAR_NAMES))
    cn = draw(st.permutations(CLASS_NAMES))
    parts, defs = [], []
    fi = vi = ci = 0
    k = draw(st.integers(2, 7))
    for _ in range(k):
        kind = draw(st.sampled_from(["func", "func", "var", "var", "class", "dup", "func_uses", "func_selfnamed"]))
        c = draw(st.integers(2, 9))
        if kind == "func" and fi < len(fn):
            name = fn[fi]; fi += 1
            body = draw(st.sampled_from([f"    return x * {c} + 1\n", f"    y = x + {c}\n    return y\n", f"    print('{name}', x)\n    return {c}\n",
                                         f"    if x > {c}:\n        return x\n    return {c}\n"]))
            parts.append(f"def {name}(x):\n{body}")
            defs.append({"kind": "func", "name": name, "owner": None, "use": "{A}" + name + "(3)"})
        elif kind == "func_selfnamed" and fi < len(fn):
            # the library mentions the function's own name as an attribute of something else (a delegating wrapper)
            name = fn[fi]; fi += 1
            parts.append(f"def {name}(x, other=None):\n    if other is not None:\n        return other.{name}(x)\n    return x + {c}\n")
            defs.append({"kind": "func", "name": name, "owner": None, "use": "{A}" + name + "(6)"})
        elif kind == "dup" and fi + 1 < len(fn):
            a, b = fn[fi], fn[fi + 1]; fi += 2
            body = f"    z = x + {c}\n    return z * 2\n"
            parts.append(f"def {a}(x):\n{body}")
            parts.append(f"def {b}(x):\n{body}")
            defs.append({"kind": "func", "name": a, "owner": None, "use": "{A}" + a + "(4)"})
            defs.append({"kind": "func", "name": b, "owner": None, "use": "{A}" + b + "(5)"})
        elif kind == "func_uses" and fi < len(fn) and any(d["kind"] == "func" for d in defs):
            name = fn[fi]; fi += 1
            callee = draw(st.sampled_from([d["name"] for d in defs if d["kind"] == "func"]))
            parts.append(f"def {name}(x):\n    return {callee}(x) + {c}\n")
            defs.append({"kind": "func", "name": name, "owner": None, "use": "{A}" + name + "(2)"})
        elif kind == "var" and vi < len(vn):
            name = vn[vi]; vi += 1
            rhs = draw(st.sampled_from([str(c), f"[1, 2, {c}]", f"'{name}-{c}'", f"{{'a': {c}}}", f"({c}, {c + 1})"]))
            ann = draw(st.sampled_from(["", "", ": object"]))
            parts.append(f"{name}{ann} = {rhs}\n")
            defs.append({"kind": "var", "name": name, "owner": None, "use": "{A}" + name})
        elif kind == "class" and ci < len(cn):
            cname = cn[ci]; ci += 1
            mn = draw(st.permutations(MEMBER_NAMES))
            members = draw(st.lists(st.sampled_from(["attr", "inst_attr", "m_self", "m_noself", "static", "classm", "prop", "m_uses"]), min_size=1, max_size=5))
            base = ""
            prior = [d["name"] for d in defs if d["kind"] == "class"]
            if prior and draw(st.booleans()):
                base = f"({draw(st.sampled_from(prior))})"
            lines = [f"class {cname}{base}:\n"]
            init_lines = ["    def __init__(self, v=1):\n"] + (["        super().__init__(v)\n"] if base else []) + ["        self.v = v\n"]
            cdefs = []
            body_lines = []
            mi = 0
            for m in members:
                if mi >= len(mn):
                    break
                name = mn[mi]; mi += 1
                if m == "attr":
                    body_lines.append(f"    {name} = {c}\n")
                    cdefs.append({"kind": "class_attr", "name": name, "owner": cname, "use": "{C}." + name})
                elif m == "inst_attr":
                    init_lines.append(f"        self.{name} = v + {c}\n")
                    cdefs.append({"kind": "inst_attr", "name": name, "owner": cname, "use": "{C}(2)." + name})
                elif m == "m_self":
                    body_lines.append(f"    def {name}(self, y):\n        return self.v + y + {c}\n")
                    cdefs.append({"kind": "method", "name": name, "owner": cname, "use": "{C}(3)." + name + "(1)"})
                elif m == "m_noself":
                    body_lines.append(f"    def {name}(self, y):\n        return y * {c}\n")
                    cdefs.append({"kind": "method_noself", "name": name, "owner": cname, "use": "{C}()." + name + "(2)"})
                elif m == "static":
                    body_lines.append(f"    @staticmethod\n    def {name}(y):\n        return y - {c}\n")
                    cdefs.append({"kind": "static", "name": name, "owner": cname, "use": "{C}." + name + "(7)"})
                elif m == "classm":
                    body_lines.append(f"    @classmethod\n    def {name}(cls, y):\n        return (cls.__name__, y + {c})\n")
                    cdefs.append({"kind": "classmethod", "name": name, "owner": cname, "use": "{C}." + name + "(1)"})
                elif m == "prop":
                    body_lines.append(f"    @property\n    def {name}(self):\n        return self.v * {c}\n")
                    cdefs.append({"kind": "property", "name": name, "owner": cname, "use": "{C}(4)." + name})
                elif m == "m_uses" and cdefs and any(d["kind"] in ("method", "method_noself") for d in cdefs):
                    callee = [d["name"] for d in cdefs if d["kind"] in ("method", "method_noself")][0]
                    body_lines.append(f"    def {name}(self, y):\n        return self.{callee}(y) + 1\n")
                    cdefs.append({"kind": "method", "name": name, "owner": cname, "use": "{C}(1)." + name + "(1)"})
            parts.append("".join(lines + body_lines[:0] + [l for l in body_lines if not l.lstrip().startswith(("def", "@"))] + init_lines
                                 + [l for l in body_lines if l.lstrip().startswith(("def", "@"))]))
            defs.append({"kind": "class", "name": cname, "owner": None, "use": "{A}" + cname + "().v"})
            defs.extend(cdefs)
    if not defs:
        parts.append("answer = 42\n")
        defs.append({"kind": "var", "name": "answer", "owner": None, "use": "{A}answer"})
    # internal uses
    top = [d for d in defs if d["owner"] is None]
    used_inside = draw(st.lists(st.sampled_from(top), max_size=3, unique_by=lambda d: d["name"]))
    style = draw(st.sampled_from(["none", "main_guard", "main_only", "module_print"]))
    if used_inside and style != "none":
        exprs = ", ".join(d["use"].replace("{A}", "") for d in used_inside)
        if style == "module_print":
            parts.append(f"print({exprs})\n")
        else:
            parts.append(f"def main():\n    print({exprs})\n")
            if style == "main_guard":
                parts.append("if __name__ == '__main__':\n    main()\n")
    return "\n\n".join(parts), defs


@st.composite
def case_strategy(draw):
    lib, defs = draw(library())
    top = [d for d in defs if d["owner"] is None]
    members = [d for d in defs if d["owner"] is not None]
    chosen_top = draw(st.lists(st.sampled_from(top), min_size=1, max_size=4, unique_by=lambda d: d["name"]))
    chosen_members = draw(st.lists(st.sampled_from(members), max_size=4, unique_by=lambda d: (d["owner"], d["name"]))) if members else []
    names_top = {d["name"] for d in chosen_top} | {d["owner"] for d in chosen_members}
    form = draw(st.sampled_from(["from", "module", "alias", "mixed"]))
    lines = []
    via_from = set()
    if form == "from":
        via_from = set(names_top)
    elif form == "mixed":
        via_from = {n for n in sorted(names_top) if draw(st.booleans())}
    renamed = {}
    if via_from:
        for n in sorted(via_from):
            if draw(st.integers(0, 4)) == 0:
                renamed[n] = "alias_" + n.strip("_")  # from lib import f as alias_f
        lines.append("from lib import " + ", ".join(f"{n} as {renamed[n]}" if n in renamed else n for n in sorted(via_from)))
    if form in ("module", "mixed") and names_top - via_from:
        lines.append("import lib")
    if form == "alias":
        lines.append("import lib as L")

    def acc_of(name):
        if name in via_from:
            return ""
        return "L." if form == "alias" else "lib."

    def local(name):
        return renamed.get(name, name)

    for d in chosen_top:
        use = d["use"].replace("{A}" + d["name"], "{A}" + local(d["name"]), 1)
        lines.append("print(repr(" + use.replace("{A}", acc_of(d["name"])) + "))")
    for d in chosen_members:
        lines.append("print(repr(" + d["use"].replace("{C}", acc_of(d["owner"]) + local(d["owner"])) + "))")
    client = "\n".join(lines) + "\n"
    preserve = names_top | {d["name"] for d in chosen_members}
    if any(d["kind"] == "class" for d in chosen_top):
        preserve.add("v")  # the client reads <class>().v: every attribute name the client accesses is a preserved name
    preserve = sorted(preserve)
    mode = draw(st.sampled_from(["api", "api", "api2", "cli", "cli", "stdin", "cli_dir"]))
    return {"lib": lib, "client": client, "preserve": preserve, "mode": mode, "preserve_all": draw(st.booleans()),
            "wanted": [[d["owner"], d["name"], d["kind"]] for d in chosen_top + chosen_members]}


def run_client(lib_src, client_src):
    """(stdout, exception class name or None, exception text) of the client executed against the library, in-process."""
    saved = sys.modules.get("lib")
    mod = types.ModuleType("lib")
    mod.__file__ = "lib.py"
    out = io.StringIO()
    exc = None
    try:
        with contextlib.redirect_stdout(out), warnings.catch_warnings():
            warnings.simplefilter("ignore")
            with env.alarm(10):
                try:
                    exec(compile(lib_src, "lib.py", "exec"), mod.__dict__)
                    sys.modules["lib"] = mod
                    exec(compile(client_src, "client.py", "exec"), {"__name__": "__main__"})
                except Exception as e:  # the programs are generated: any exception is data
                    exc = e
    finally:
        if saved is not None:
            sys.modules["lib"] = saved
        else:
            sys.modules.pop("lib", None)
    return out.getvalue(), type(exc).__name__ if exc else None, str(exc) if exc else ""


def definitions(src):
    """{(owner, name)} of module-level bindings and class members (incl. self.<attr> in methods)."""
    out = set()
    try:
        tree = ast.parse(src)
    except SyntaxError:
        return None

    def targets(node):
        if isinstance(node, (ast.FunctionDef, ast.AsyncFunctionDef, ast.ClassDef)):
            yield node.name
        elif isinstance(node, ast.Assign):
            for t in node.targets:
                for n in ast.walk(t):
                    if isinstance(n, ast.Name):
                        yield n.id
        elif isinstance(node, (ast.AnnAssign, ast.AugAssign)) and isinstance(node.target, ast.Name):
            yield node.target.id

    for node in tree.body:
        for n in targets(node):
            out.add((None, n))
        if isinstance(node, ast.ClassDef):
            for m in node.body:
                for n in targets(m):
                    out.add((node.name, n))
                for sub in ast.walk(m):
                    if isinstance(sub, ast.Attribute) and isinstance(sub.value, ast.Name) and sub.value.id == "self" and isinstance(sub.ctx, ast.Store):
                        out.add((node.name, sub.attr))
    return out


def rewrite(case):
    main = env.mod("main")
    env.clear_caches()
    lib = case["lib"]
    if case["mode"] in ("api", "api2"):
        status, out, _ = progcheck.run_tool(lambda s: main.format_code(s, preserve=frozenset(case["preserve"])), lib)
        if status == "ok" and case["mode"] == "api2":
            status, out, _ = progcheck.run_tool(lambda s: main.format_code(s, preserve=frozenset(case["preserve"])), out)
        return status, out
    d = tempfile.mkdtemp(prefix="vf_c08_")
    cwd = os.getcwd()
    try:
        if case["mode"] == "cli_dir":
            # directories on both sides: the library sits in a package folder next to a second module (folder-level pass
            # bookkeeping), the client in a nested folder of the preserved directory next to an unrelated file
            os.makedirs(os.path.join(d, "pkg"))
            os.makedirs(os.path.join(d, "clients", "sub"))
            files = {"pkg/lib.py": lib, "pkg/other.py": "import os\nimport sys\n\n\ndef unused_helper(a):\n    b = a\n    return b\n\n\nprint(os.sep)\n",
                     "pkg/__init__.py": "", "clients/sub/client.py": case["client"], "clients/unrelated.py": "value = 1\nprint(value.real)\n"}
            for rel, text in files.items():
                with open(os.path.join(d, rel), "w") as fh:
                    fh.write(text)
            os.chdir(d)

            def go_dir(_):
                with contextlib.redirect_stdout(io.StringIO()), contextlib.redirect_stderr(io.StringIO()):
                    main.main([os.path.join(d, "pkg"), "--preserve", d if case.get("preserve_all") else os.path.join(d, "clients"), "--n_cores", "2"])
                with open(os.path.join(d, "pkg", "lib.py")) as fh:
                    return fh.read()

            status, out, _ = progcheck.run_tool(go_dir, lib)
            if status == "ok":
                for rel in ("clients/sub/client.py", "clients/unrelated.py"):
                    with open(os.path.join(d, rel)) as fh:
                        if fh.read() != files[rel]:
                            return "client-modified", None
            return status, out
        with open(os.path.join(d, "lib.py"), "w") as fh:
            fh.write(lib)
        with open(os.path.join(d, "client.py"), "w") as fh:
            fh.write(case["client"])
        os.chdir(d)

        def go(_):
            if case["mode"] == "stdin":
                buf = io.StringIO()
                saved_stdin = sys.stdin
                sys.stdin = io.StringIO(lib)
                try:
                    with contextlib.redirect_stdout(buf), contextlib.redirect_stderr(io.StringIO()):
                        main.main(["--from-stdin", "--preserve", os.path.join(d, "client.py")])
                finally:
                    sys.stdin = saved_stdin
                return buf.getvalue()
            with contextlib.redirect_stdout(io.StringIO()), contextlib.redirect_stderr(io.StringIO()):
                main.main([os.path.join(d, "lib.py"), "--preserve", os.path.join(d, "client.py"), "--n_cores", "1"])
            with open(os.path.join(d, "lib.py")) as fh:
                return fh.read()

        status, out, _ = progcheck.run_tool(go, lib)
        if status == "ok":
            with open(os.path.join(d, "client.py")) as fh:
                if fh.read() != case["client"]:
                    return "client-modified", None
        return status, out
    finally:
        os.chdir(cwd)
        shutil.rmtree(d, ignore_errors=True)


def evaluate(case, info=None):
    fails = []

    def fail(bucket, detail):
        fails.append({"bucket": bucket, "case": case,
                      "detail": f"mode {case['mode']} preserve {case['preserve']}\n{detail}\n--- library\n{case['lib']}\n--- client\n{case['client']}"})

    before = run_client(case["lib"], case["client"])
    if before[1] is not None:
        return []  # the generator builds clients that run; anything else is a generator problem, not data
    status, out = rewrite(case)
    if status == "client-modified":
        fail("preserved-file-modified", "the file passed with --preserve was rewritten")
        return fails
    if status == "crash" and case["mode"] in ("cli", "stdin", "cli_dir"):
        api = rewrite({**case, "mode": "api"})
        if api[0] == "ok":
            fail("command-line-crash:" + env.exc_bucket(out), f"{out!r} (format_code with the same preserve set succeeds)")
            return fails
    if status != "ok" or not isinstance(out, str):
        return []  # crashes / hangs of the pipeline itself are C03's and C04's
    defs_before = definitions(case["lib"])
    defs_after = definitions(out)
    if defs_after is None:
        return []
    if info is not None:
        info["changed"] = out != case["lib"]
        info["lost_unpreserved"] = sorted(f"{o}.{n}" if o else n for o, n in defs_before - defs_after if n not in case["preserve"])
    lost = sorted(((o, n) for o, n in defs_before - defs_after if n in case["preserve"] and (o is None or o in case["preserve"])), key=lambda t: (t[0] or "", t[1]))
    kinds = {(o, n): k for o, n, k in case.get("wanted", [])}
    if lost:
        o, n = lost[0]
        kind = kinds.get((o, n), "member" if o else "definition")
        fail(f"preserved-{kind}-missing", f"lost: {lost}\n--- result\n{out}")
        return fails
    after = run_client(out, case["client"])
    if after[1] != before[1] or after[0] != before[0]:
        if after[1] in ("ImportError", "AttributeError", "NameError", "ModuleNotFoundError"):
            fail(f"client-broken:{after[1]}", f"{after[1]}: {after[2]}\n--- result\n{out}")
        else:
            fail("client-output-differs", f"before {before[:2]!r}\nafter  {after[:2]!r}\n--- result\n{out}")
    return fails


def plan(tier, seed):
    nsh = 16
    q = tier == "quick"
    return [{"kind": "gen", "n": (2400 if q else 40000) // nsh, "seed": env.subseed(seed, ID, "gen", s), "budget_s": 85 if q else 1500} for s in range(nsh)]


def run_shard(spec):
    acc = Acc()

    def go(case):
        info = {}
        fails = evaluate(case, info)
        nontrivial = bool(info.get("changed")) and bool(info.get("lost_unpreserved"))
        classes = [f"mode:{case['mode']}" + ("+whole-tree-preserved" if case["mode"] == "cli_dir" and case.get("preserve_all") else ""), "changed" if info.get("changed") else "unchanged"]
        classes += sorted({f"uses:{k}" for _, _, k in case["wanted"]})
        if info.get("lost_unpreserved"):
            classes.append("unpreserved-definition-deleted-or-renamed")
        acc.case(case, nontrivial, classes, sample={"preserve": case["preserve"], "mode": case["mode"], "lib": case["lib"][:300], "client": case["client"][:200]})
        acc.fails(fails)

    hyp.run(case_strategy(), go, spec["n"], spec["seed"], spec["budget_s"], acc, chunk=20)
    return acc
