"""C06 - results are deterministic across processes, hash seeds and worker schedules."""
from __future__ import annotations

import json
import os
import random
import shutil
import subprocess
import sys
import tempfile
import time

from hypothesis import strategies as st

from vf import env, hyp, progcheck
from vf.acc import Acc
from vf.gen import corpus, families, programs

ID = "C06"
LEVEL = "exploration"
RULE = (
    "Part A: inputs (conflict-rich rule families: several function-level / duplicate / unused / star imports, several static methods, unused "
    "variables and functions, swappable if/else, overlapping comprehension rewrites, hoisted constants; grammar programs; repository examples) "
    "are formatted by k persistent worker processes started with PYTHONHASHSEED in {0, 1, 2, random} (k=4 quick, 8 thorough); every worker "
    "formats each input twice with caches cleared and a seeded heap perturbation in between (so that set-of-node iteration orders differ); all "
    "2k outputs must be byte-identical. Part B: generated directory trees (3-9 modules in 1-3 folders: rule-firing files, files needing "
    "several passes, unchanged, invalid, __init__.py) are formatted on copies by a plain sequential loop of format_file (max_passes=1) / by "
    "format_files(n_cores=1) (max_passes 2-5) as reference, and by format_files with n_cores in 2..16, shuffled and duplicated file lists and "
    "per-file delays of 0-30 ms injected into format_file (inherited by the forked pool workers) to permute completion order; trees and "
    "return values must be identical. Non-trivial: A = the formatter changed the input; B = >=2 files changed; distinct by input / tree."
)
ASSUMPTIONS = [
    "address-space layout variation is approximated by heap perturbation and by distinct processes",
    "interleavings are sampled through injected delays and worker counts, not enumerated",
]
EXHAUSTIVE = {"quick": False, "thorough": False}

WORKER = r'''
import sys, json, importlib, random, gc
sys.path.insert(0, sys.argv[1])
import logging
main = importlib.import_module("pyrefact.main")
logging.getLogger("pyrefact").disabled = True
import pyrefact
mods = [m for n, m in list(sys.modules.items()) if n.startswith("pyrefact") and m is not None]
def clear():
    for m in mods:
        for obj in list(vars(m).values()):
            if hasattr(obj, "cache_clear") and getattr(obj, "__name__", "") not in ("parse_line_length_from_pyproject_toml", "_get_logger"):
                try: obj.cache_clear()
                except Exception: pass
junk = []
for line in sys.stdin:
    req = json.loads(line)
    outs = []
    rnd = random.Random(req["perturb"])
    for rep in range(2):
        clear()
        # heap perturbation: allocate and free node-sized objects in a seeded pattern
        junk[:] = [object() for _ in range(rnd.randint(0, 3000))]
        del junk[:: rnd.randint(1, 5)]
        try:
            o = req["opts"]
            outs.append(main.format_code(req["src"], safe=o["safe"], keep_imports=o["keep_imports"], preserve=frozenset(o["preserve"]), max_line_length=o["max_line_length"]))
        except BaseException as exc:
            outs.append("EXC:" + type(exc).__name__)
    sys.stdout.write(json.dumps(outs) + "\n")
    sys.stdout.flush()
'''


class Workers:
    def __init__(self, seeds):
        self.procs = []
        for s in seeds:
            e = dict(os.environ)
            if s == "random":
                e["PYTHONHASHSEED"] = "random"
            else:
                e["PYTHONHASHSEED"] = str(s)
            p = subprocess.Popen([sys.executable, "-c", WORKER, env.REPO], stdin=subprocess.PIPE, stdout=subprocess.PIPE, stderr=subprocess.DEVNULL,
                                 text=True, env=e, cwd=env.VERIF)
            self.procs.append((s, p))

    def ask(self, src, opts, perturb):
        req = json.dumps({"src": src, "opts": opts, "perturb": perturb}) + "\n"
        for _, p in self.procs:
            p.stdin.write(req)
            p.stdin.flush()
        out = []
        for s, p in self.procs:
            line = p.stdout.readline()
            if not line:
                raise env.HarnessError(f"hash-seed worker {s} died")
            out.append((s, json.loads(line)))
        return out

    def close(self):
        for _, p in self.procs:
            try:
                p.stdin.close()
                p.wait(timeout=5)
            except Exception:
                p.kill()


def eval_a(case, workers):
    res = workers.ask(case["src"], progcheck.fmt_opts_json(case.get("opts")), case.get("perturb", 1))
    outs = [(s, i, o) for s, pair in res for i, o in enumerate(pair)]
    distinct = {}
    for s, i, o in outs:
        distinct.setdefault(o, []).append((s, i))
    fails = []
    if len(distinct) > 1:
        keys = list(distinct)
        import difflib
        d = "".join(difflib.unified_diff(keys[0].splitlines(True), keys[1].splitlines(True), f"hashseed/run {distinct[keys[0]][0]}", f"hashseed/run {distinct[keys[1]][0]}"))
        same_worker = any(len({o for s2, i, o in outs if s2 == s}) > 1 for s, _ in res)
        fails.append({"bucket": "output-differs-between-runs-of-one-process" if same_worker else "output-differs-between-hash-seeds", "case": case,
                      "detail": f"{len(distinct)} different outputs: {[v for v in distinct.values()]}\n{d[:1500]}\n--- input\n{case['src'][:1200]}"})
    return fails, outs[0][2]


# ------------------------------------------------------------------ part B

def write_tree(root, tree):
    for rel, text in tree.items():
        path = os.path.join(root, rel)
        os.makedirs(os.path.dirname(path), exist_ok=True)
        with open(path, "w", encoding="utf-8") as fh:
            fh.write(text)


def read_tree(root):
    out = {}
    for d, _, files in os.walk(root):
        for f in files:
            p = os.path.join(d, f)
            with open(p, encoding="utf-8") as fh:
                out[os.path.relpath(p, root)] = fh.read()
    return out


def eval_b(case):
    main = env.mod("main")
    tree = case["tree"]
    base = tempfile.mkdtemp(prefix="vf_c06_")
    fails = []
    real_format_file = main.format_file
    try:
        ref_root = os.path.join(base, "ref")
        write_tree(ref_root, tree)
        files = sorted(tree)
        env.clear_caches()
        mp_ = case["max_passes"]
        if mp_ == 1:
            ref_ret = False
            for rel in files:
                try:
                    ref_ret = bool(main.format_file(os.path.join(ref_root, rel), safe=case["safe"])) or ref_ret
                except Exception:
                    return []
        else:
            try:
                ref_ret = main.format_files([os.path.join(ref_root, f) for f in files], n_cores=1, max_passes=mp_, safe=case["safe"])
            except Exception:
                return []
        ref_tree = read_tree(ref_root)
        for k, sched in enumerate(case["schedules"]):
            root = os.path.join(base, f"run{k}")
            write_tree(root, tree)
            order = [files[i % len(files)] for i in sched["order"]]
            delays = {os.path.join(root, f): d for f, d in zip(files, sched["delays"])}

            def delayed(filename, preserve=frozenset(), safe=False, _d=delays, _real=real_format_file):
                time.sleep(_d.get(str(filename), 0) / 1000.0)
                return _real(filename, preserve, safe)

            delayed.__name__ = "format_file"
            delayed.__qualname__ = "format_file"
            delayed.__module__ = "pyrefact.main"
            main.format_file = delayed
            env.clear_caches()
            try:
                ret = main.format_files([os.path.join(root, f) for f in order], n_cores=sched["n_cores"], max_passes=mp_, safe=case["safe"])
            except Exception as exc:
                main.format_file = real_format_file
                fails.append({"bucket": "parallel:exception:" + env.exc_bucket(exc), "case": case, "detail": repr(exc)})
                continue
            finally:
                main.format_file = real_format_file
            got = read_tree(root)
            if got != ref_tree:
                bad = sorted(f for f in ref_tree if got.get(f) != ref_tree[f])
                fails.append({"bucket": "parallel:tree-differs-from-sequential", "case": case,
                              "detail": f"n_cores={sched['n_cores']} order={sched['order']} files differing: {bad}\n--- sequential {bad[0]}\n{ref_tree[bad[0]][:600]}\n--- parallel\n{got.get(bad[0], '')[:600]}"})
            if bool(ret) != bool(ref_ret):
                fails.append({"bucket": "parallel:change-report-differs", "case": case, "detail": f"sequential {ref_ret!r} vs n_cores={sched['n_cores']} {ret!r}"})
        case["_changed_files"] = sum(1 for f in tree if ref_tree.get(f) != tree[f])
        return fails
    finally:
        main.format_file = real_format_file
        shutil.rmtree(base, ignore_errors=True)


def evaluate(case):
    if case.get("part") == "B":
        c = dict(case)
        return eval_b(c)
    w = Workers([0, 1, 2, "random"])
    try:
        return eval_a(case, w)[0]
    finally:
        w.close()


TWO_PASS = "\nfor i in range({n}):\n    if i % 3 == 2:\n        print(i ** i)\n        print(i ** 3)\n        print(i ** 4)\n"


@st.composite
def directed_trees(draw):
    """One file per folder; exactly one of them needs a second pass, and a file that sorts before it finishes late:
    the per-file change flags matter (which folder gets another pass) and completion order differs from file order."""
    folders = ["pkg_a", "pkg_b", "pkg_c"][: draw(st.integers(2, 3))]
    kinds = draw(st.permutations(["two_pass", "unchanged", "one_pass"][: len(folders)]))
    tree = {}
    for folder, kind in zip(folders, kinds):
        if kind == "two_pass":
            text = TWO_PASS.replace("{n}", str(draw(st.integers(5, 60))))
        elif kind == "unchanged":
            text = f"print({draw(st.integers(0, 9))})\n"
        else:
            text = "x = 1\nprint(x)\n\n\n\n"
        tree[f"{folder}/mod.py"] = text
    n = len(tree)
    schedules = []
    for _ in range(2):
        slow = draw(st.integers(0, n - 1))
        delays = [draw(st.integers(250, 450)) if i == slow else 0 for i in range(n)]
        schedules.append({"n_cores": draw(st.sampled_from([2, 3, 4])), "order": list(draw(st.permutations(list(range(n))))), "delays": delays})
    return {"part": "B", "tree": tree, "max_passes": draw(st.sampled_from([2, 3, 5])), "safe": draw(st.booleans()), "schedules": schedules, "directed": True}


@st.composite
def trees(draw):
    if draw(st.integers(0, 2)) == 0:
        return draw(directed_trees())
    nfolders = draw(st.integers(1, 3))
    tree = {}
    for fi in range(nfolders):
        folder = ["pkg_a", "pkg_b/sub", "scripts"][fi]
        for k in range(draw(st.integers(1, 4))):
            kind = draw(st.sampled_from(["family", "family", "family", "unchanged", "invalid", "init", "two_pass"]))
            if kind == "family":
                text = draw(families.family_program())[1]
            elif kind == "two_pass":
                text = TWO_PASS.replace("{n}", str(draw(st.integers(5, 60))))
            elif kind == "unchanged":
                text = "print(1)\n"
            elif kind == "invalid":
                text = "def broken(:\n    pass\n"
            else:
                text = "from os import path\nimport sys\n"
            name = "__init__.py" if kind == "init" else f"m{fi}_{k}.py"
            tree[f"{folder}/{name}"] = text
    n = len(tree)
    schedules = []
    for _ in range(draw(st.integers(2, 3))):
        order = draw(st.permutations(list(range(n))))
        if draw(st.integers(0, 3)) == 0:
            order = list(order) + [order[0]]
        schedules.append({"n_cores": draw(st.sampled_from([2, 3, 4, 8, 16])), "order": list(order), "delays": [draw(st.integers(0, 30)) for _ in range(n)]})
    return {"part": "B", "tree": tree, "max_passes": draw(st.sampled_from([1, 1, 2, 3, 5])), "safe": draw(st.booleans()), "schedules": schedules}


CONFLICT = ["imports", "duplicates", "classes", "unused", "constants", "swap_if_else", "nested_comp", "common_code_ifs", "misc_rewrites", "naming", "builtin_chains", "dict_items"]


def plan(tier, seed):
    q = tier == "quick"
    specs = []
    nA = 6 if q else 8
    for s in range(nA):
        specs.append({"kind": "A", "n": (420 if q else 8000) // nA, "seed": env.subseed(seed, ID, "A", s), "k": 4 if q else 8, "budget_s": 100 if q else 1500})
    for s in range(8):
        specs.append({"kind": "B", "n": (32 if q else 480) // 8, "seed": env.subseed(seed, ID, "B", s), "budget_s": 100 if q else 1500})
    return specs


def run_shard(spec):
    acc = Acc()
    if spec["kind"] == "A":
        seeds = [0, 1, 2, "random"] if spec["k"] == 4 else [0, 1, 2, 3, 4, 5, "random", "random"]
        workers = Workers(seeds)
        pool = corpus.repo_examples()

        def go(data):
            kind = data.draw(st.sampled_from(["family", "family", "family", "grammar", "corpus"]))
            if kind == "family":
                src = data.draw(families.family_program(names=CONFLICT))[1]
            elif kind == "grammar":
                src = data.draw(programs.programs())
            else:
                src = data.draw(st.sampled_from(pool))
            case = {"part": "A", "src": src, "opts": {"safe": data.draw(st.booleans()), "keep_imports": False, "preserve": [], "max_line_length": 100},
                    "perturb": data.draw(st.integers(0, 10 ** 6))}
            fails, out = eval_a(case, workers)
            acc.case(case, out != src and not str(out).startswith("EXC:"), [f"A:{kind}"], sample={"src": src[:300]})
            acc.fails(fails)

        try:
            hyp.run(st.data(), go, spec["n"], spec["seed"], spec["budget_s"], acc, chunk=20)
        finally:
            workers.close()
        return acc

    def go_b(case):
        fails = eval_b(case)
        changed = case.pop("_changed_files", 0)
        acc.case(case, changed >= 2, [f"B:max_passes={case['max_passes']}", f"B:files={len(case['tree'])}"] + (["B:directed-slow-file-and-two-pass-file"] if case.get("directed") else []),
                 sample={"files": sorted(case["tree"]), "max_passes": case["max_passes"], "schedules": case["schedules"]})
        acc.fails(fails)

    hyp.run(trees(), go_b, spec["n"], spec["seed"], spec["budget_s"], acc, chunk=4)
    return acc
