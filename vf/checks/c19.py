"""C19 - renaming is consistent and capture-free."""
from __future__ import annotations

import ast
import keyword
import string
import warnings

from hypothesis import strategies as st

from vf import env, hyp, progcheck
from vf.acc import Acc
from vf.ref import bindings

ID = "C19"
LEVEL = "exploration"
RULE = (
    "programs assembled from closed, printing blocks - one per way of binding a name (assignment, nested assignment in loops, augmented, "
    "for, with-as, import-as, from-import-as, def, class, parameters incl. * and **, keyword uses of parameters, global, nonlocal, "
    "comprehension variables incl. shadowing, lambda, except-as, walrus, starred targets, closures, class attributes, instance "
    "attributes, static / class methods, duplicate functions, names mentioned in strings and f-strings, dict(k=k)) and idioms of the "
    "rules that invent names (dict items, subscript looping, nested loops to comprehension, overused constants) - whose identifiers are "
    "drawn from adversarial groups: snake / camel / CapWords / UPPER / underscore variants of each other, names whose conventional form is "
    "a builtin (Sum, List, Print) or a keyword (Class, Match, If), generated-name shapes (var_1, pyrefact_overused_constant_0, "
    "<dict>_<key>), one-letter names; blocks share a small per-program pool so that variants and would-be new names co-occur. Rules: "
    "align_variable_names_with_convention (with random preserve sets), undefine_unused_variables, remove_duplicate_functions, "
    "move_staticmethod_static_scope, remove_unused_self_cls, the name-inventing rules, and format_code. Oracles: (i) execution: same "
    "stdout / exception class as the original; (ii) when the result has the same tree shape with identifiers masked (a pure renaming): "
    "a reference binding graph built from the AST alone maps every identifier occurrence to its binding (scope, name) before and after; "
    "the partition of occurrences into bindings must be identical (split = a reference was not renamed with its binding, merge = "
    "capture); (iii) every changed identifier is a valid identifier, not a keyword and not a builtin. Non-trivial = at least one "
    "identifier was renamed (pure renaming) or the shape changed; distinct by case; histogram by rule and binding forms."
)
ASSUMPTIONS = [
    "a store whose value is never read may be moved to the throwaway name '_' (a deliberate split of a dead store); a merge with a '_' that the program reads is still a capture",
    "attribute and keyword-argument consistency is decided by the execution oracle (attributes cannot be resolved to a class statically)",
    "shadowing a visible but unreferenced outer name is not a capture; only merges of bindings that the program references are",
]
EXHAUSTIVE = {"quick": False, "thorough": False}
PREDICATES = {}

GROUPS = [
    ["total_count", "totalCount", "TotalCount", "TOTAL_COUNT", "_total_count", "total_Count", "_TotalCount"],
    ["max_size", "maxSize", "MaxSize", "MAX_SIZE", "_maxSize", "__max_size"],
    ["sum_", "Sum", "SUM", "_sum", "Len", "LEN", "List", "Print", "Max", "Min", "Id", "Type", "Filter", "Map", "Set", "Dict", "All", "Any", "Input"],
    ["Class", "Match", "If", "For", "While", "Def", "Return", "Import", "Lambda", "Pass", "Not", "In", "Is", "Async", "Await", "Global", "CLASS", "_If"],
    ["x", "X", "_x", "y", "Y", "i", "I", "j", "n", "N", "k", "K", "_", "__"],
    ["var_1", "var_2", "Var_1", "pyrefact_overused_constant_0", "PYREFACT_OVERUSED_CONSTANT_0", "_pyrefact_abstraction_1", "pyrefactVar"],
    ["item", "items", "key", "value", "data", "Data", "DATA", "data_items", "data_key", "data_value", "data_item", "Key"],
    ["self_", "cls_", "Self", "Cls", "result", "Result", "RESULT", "_result"],
    ["fooBar", "foo_bar", "FooBar", "FOO_BAR", "foobar", "Foobar", "fooBAR", "foo__bar"],
]

BLOCKS = {
    "assign": "$a = 3\nprint($a + 1)\n",
    "loop_nested_assign": "$a = 0\nfor $b in range(3):\n    $a = $a + $b\nprint($a)\n",
    "augmented": "$a = 1\n$a += 2\nprint($a)\n",
    "with_as": "import io\nwith io.StringIO('x') as $a:\n    print($a.read())\n",
    "import_as": "import math as $a\nprint($a.floor(2.5))\n",
    "from_import_as": "from math import floor as $a\nprint($a(2.5))\n",
    "def_params_keywords": "def $f($p, $q=2):\n    $a = $p * $q\n    return $a\nprint($f(3), $f($p=1, $q=5))\n",
    "class_members": "class $C:\n    $a = 5\n    def $m(self, $p):\n        self.$b = $p\n        return self.$b + self.$a\nprint($C().$m(2), $C.$a)\n",
    "global": "$a = 1\ndef $f():\n    global $a\n    $a = $a + 1\n$f()\nprint($a)\n",
    "nonlocal": "def $f():\n    $a = 1\n    def $g():\n        nonlocal $a\n        $a += 1\n    $g()\n    return $a\nprint($f())\n",
    "comprehension": "$a = [1, 2, 3]\nprint([$b * 2 for $b in $a])\n",
    "comprehension_shadow": "$a = 10\nprint([$a for $a in range(3)], $a)\n",
    "lambda": "$f = lambda $p: $p + 1\nprint($f(2))\n",
    "except_as": "try:\n    raise ZeroDivisionError('z')\nexcept ZeroDivisionError as $a:\n    print(type($a).__name__)\n",
    "unused_local": "def $f():\n    $a = 5\n    $b = 6\n    return $b\nprint($f())\n",
    "unused_loop_var": "for $a in range(2):\n    print('x')\n",
    "tuple_unpack": "$a, $b = 1, 2\nprint($a)\n",
    "closure_reads_global": "$a = 4\ndef $f():\n    return $a + 1\nprint($f())\n",
    "local_shadows_global": "$a = 1\ndef $f():\n    $a = 2\n    return $a\nprint($f(), $a)\n",
    "walrus": "if ($a := 5) > 2:\n    print($a)\n",
    "starred_target": "$a, *$b = [1, 2, 3]\nprint($b)\n",
    "keyword_same_as_var": "$a = 2\nprint(dict($a=$a))\n",
    "fstring": "$a = 3\nprint(f'{$a} {$a + 1}')\n",
    "string_mention": "$a = 1\nprint('$a', $a)\n",
    "closure": "def $f($p):\n    def $g($q):\n        return $p + $q\n    return $g\nprint($f(1)(2))\n",
    "star_params": "def $f(*$p, **$q):\n    return len($p) + len($q)\nprint($f(1, 2, k=3))\n",
    "static_class_methods": ("class $C:\n    def __init__(self, $p):\n        self.$a = $p\n    @staticmethod\n    def $m($q):\n        return $q + 1\n"
                             "    @classmethod\n    def $g(cls):\n        return cls.$m(1)\nprint($C(1).$a, $C.$m(2), $C.$g())\n"),
    "loop_var_after_loop": "def $f():\n    for $a in range(3):\n        pass\n    return $a\nprint($f())\n",
    "dict_items_loop": "$a = {'k': 1}\nfor $b, $c in $a.items():\n    print($b, $c)\n",
    "param_reassigned": "def $f($p):\n    $p = $p + 1\n    return $p\nprint($f(1))\n",
    "param_shadows_global": "$a = 5\ndef $f($a):\n    return $a * 2\nprint($f(3), $a)\n",
    "duplicate_functions": "def $f():\n    return 1\ndef $g():\n    return 1\nprint($f(), $g())\n",
    "class_body_reads_global": "$a = 7\nclass $C:\n    $b = $a + 1\nprint($C.$b)\n",
    "reassign_chain": "$a = 1\n$b = $a\n$a = 2\nprint($a, $b)\n",
    "dotted_import_as": "import os.path as $a\nprint($a.basename('/x/y'))\n",
    "builtins_used": "print(sum([1, 2]), len('ab'), max(1, 2), list('a'), min(2, 3), any([0]), all([1]))\n",
    "builtins_in_function": "def $f():\n    $a = [3]\n    return sum($a) + len($a) + max($a)\nprint($f())\n",
    "method_uses_global_func": "def $f($p):\n    return $p + 1\nclass $C:\n    def $m(self):\n        return $f(1)\nprint($C().$m())\n",
    "nested_class": "class $C:\n    class $D:\n        $a = 1\n    $b = $D.$a + 1\nprint($C.$b, $C.$D.$a)\n",
    "del_name": "$a = 1\n$b = $a\ndel $a\nprint($b)\n",
    "annotated": "$a: int = 3\ndef $f($p: int = $a) -> int:\n    return $p\nprint($f(), $a)\n",
    "decorator": "def $f($p):\n    return $p\n@$f\ndef $g():\n    return 2\nprint($g())\n",
    "param_named_like_duplicate": "def $f():\n    return 1\ndef $g():\n    return 1\ndef $h($g):\n    return $g + 1\nprint($f(), $g(), $h(1))\n",
    "same_member_two_classes": ("class $C:\n    def $m(self, $p):\n        return $p + 7\n    def $g(self, $p):\n        return self.$m($p) + 1\n"
                                "class $D:\n    @staticmethod\n    def $m($q):\n        return $q - 5\nprint($C().$g(1), $D.$m(7))\n"),
    "kwonly_param_reassigned": "def $f($p, *, $q=10):\n    $q = min($q, 100)\n    return $p + $q\nprint($f(1), $f(1, $q=5))\n",
    "star_params_reassigned": "def $f(*$p, **$q):\n    $p = $p or (0,)\n    $q = $q or {'k': 0}\n    return len($p) + len($q)\nprint($f(), $f(1, 2, k=2, j=3))\n",
    "posonly_param_reassigned": "def $f($p, /, $q):\n    $p = $p + 1\n    return $p + $q\nprint($f(1, 2))\n",
    "nested_subclass_static": ("class $C:\n    @staticmethod\n    def $m():\n        return 1\n    def $g(self):\n        return self.$m() + 1\n"
                               "def $f():\n    class $D($C):\n        def $h(self):\n            return self.$m() + 2\n    return $D().$h()\nprint($C().$g(), $f())\n"),
    "nested_subclass_in_class": ("class $C:\n    @staticmethod\n    def $m():\n        return 1\nclass $D:\n    class $h($C):\n        @classmethod\n        def $g(cls):\n            return cls.$m() + 3\n"
                                 "print($C.$m(), $D.$h.$g())\n"),
    "subclass_module_level": "class $C:\n    @staticmethod\n    def $m():\n        return 1\nclass $D($C):\n    def $g(self):\n        return self.$m() + 2\nprint($D().$g(), $C.$m())\n",
    # idioms of rules that invent names
    "idiom_dict_subscript_loop": "$a = {'k': 1, 'j': 2}\nfor $b in $a:\n    print($b, $a[$b])\n",
    "idiom_subscript_looping": "$a = [[1, 2], [3, 4]]\nprint([$a[$b][0] for $b in range(len($a))])\n",
    "idiom_overused_constant": ("def $f():\n    return 'some long string constant'\ndef $g():\n    return 'some long string constant'\n"
                                "print($f(), $g(), 'some long string constant', 'some long string constant', 'some long string constant')\n"),
    "idiom_nested_loops": "$a = []\nfor $b in range(3):\n    for $c in range(2):\n        $a.append($b * $c)\nprint($a)\n",
    "idiom_if_control_flow": "def $f($p):\n    if $p > 1:\n        $a = 1\n    else:\n        $a = 2\n    return $a\nprint($f(0), $f(5))\n",
}

RULES = [
    ("fixes", "align_variable_names_with_convention"), ("fixes", "align_variable_names_with_convention"), ("fixes", "align_variable_names_with_convention"),
    ("fixes", "align_variable_names_with_convention"), ("fixes", "undefine_unused_variables"), ("fixes", "remove_duplicate_functions"),
    ("object_oriented", "move_staticmethod_static_scope"), ("object_oriented", "remove_unused_self_cls"),
    ("abstractions", "simplify_if_control_flow"), ("fixes", "replace_nested_loops_with_set_list_comp"), ("fixes", "implicit_dict_keys_values_items"),
    ("performance", "replace_subscript_looping"), ("abstractions", "overused_constant"),
    ("main", "format_code"), ("main", "format_code"), ("main", "format_code"),
]


NAMING_RULES = {r[1] for r in RULES} - {"format_code"}


def placeholders(template):
    return sorted({m[1] or m[2] for m in string.Template.pattern.findall(template) if (m[1] or m[2])})


@st.composite
def programs(draw):
    groups = draw(st.lists(st.sampled_from(GROUPS), min_size=1, max_size=3, unique_by=id))
    pool = sorted({n for g in groups for n in g})
    names_blocks = draw(st.lists(st.sampled_from(sorted(BLOCKS)), min_size=1, max_size=5))
    parts, used = [], set()
    for bname in names_blocks:
        tmpl = BLOCKS[bname]
        ph = placeholders(tmpl)
        chosen = draw(st.lists(st.sampled_from(pool), min_size=len(ph), max_size=len(ph), unique=True)) if len(pool) >= len(ph) else None
        if chosen is None:
            continue
        used.update(chosen)
        parts.append(string.Template(tmpl).substitute(dict(zip(ph, chosen))))
    src = "".join(parts)
    preserve = draw(st.lists(st.sampled_from(sorted(used)), max_size=2, unique=True)) if used and draw(st.integers(0, 3)) == 0 else []
    rule = draw(st.sampled_from(RULES))
    return {"src": src, "rule": list(rule), "preserve": preserve, "blocks": names_blocks}


def evaluate(case, info=None):
    info = info if info is not None else {}
    src = case["src"]
    fails = []
    try:
        with warnings.catch_warnings():
            warnings.simplefilter("ignore")
            ast.parse(src)
    except SyntaxError:
        return []  # a keyword-like pool name in a position Python rejects: not a program
    modname, fname = case["rule"]
    env.clear_caches()
    if fname == "format_code":
        opts = {"preserve": case.get("preserve", [])}
        status, out, _ = progcheck.run_tool(env.mod("main").format_code, src, **progcheck.fmt_opts(opts))
        bfails, binfo = progcheck.pipeline_behaviour({"src": src, "opts": opts})
    else:
        fn = getattr(env.mod(modname), fname)
        kwargs = {}
        inner = getattr(fn, "_fix_func", fn)
        code = getattr(inner, "__code__", None)
        if code is not None and "preserve" in code.co_varnames[: code.co_argcount + code.co_kwonlyargcount]:
            kwargs["preserve"] = frozenset(case.get("preserve", ()))
        if fname == "overused_constant":
            kwargs["root_is_static"] = True
        status, out, _ = progcheck.run_tool(fn, src, **kwargs)
        bfails, binfo = progcheck.rule_behaviour(case)
    info["status"] = binfo.get("status", "")
    for f in bfails:
        culprit = f["bucket"].split(":")[0]
        if culprit not in NAMING_RULES and culprit != "format_code":
            info["other_rule"] = culprit  # a behaviour change caused by a rule that does not rename: C01/C02's business, counted
            continue
        fails.append({"bucket": "behaviour:" + f["bucket"], "case": case, "detail": f["detail"]})
    if status != "ok" or not isinstance(out, str) or out == src:
        info["changed"] = False
        return fails
    info["changed"] = True
    try:
        with warnings.catch_warnings():
            warnings.simplefilter("ignore")
            cmp = bindings.compare(src, out)
    except SyntaxError:
        return fails  # validity of the result is C03's
    if cmp is None:
        info["pure_rename"] = False
        return fails
    info["pure_rename"] = True
    info["renamed"] = len(cmp["renamed"])
    info["roles"] = sorted({r for _, _, r in cmp["renamed"]})
    seen = set()
    for kind, text in cmp["problems"]:
        if kind in seen:
            continue
        seen.add(kind)
        fails.append({"bucket": f"{fname}:{kind}", "case": case,
                      "detail": f"{fname} preserve={case.get('preserve')}: {kind}: {text}\nrenamed: {cmp['renamed'][:12]}\n--- before\n{src}\n--- after\n{out}"})
    for old, new, role in cmp["renamed"]:
        if old in case.get("preserve", ()) and role not in ("attribute", "keyword") and "preserved-name-renamed" not in seen:
            seen.add("preserved-name-renamed")
            fails.append({"bucket": f"{fname}:preserved-name-renamed", "case": case, "detail": f"{old} -> {new} ({role}) although preserved\n--- before\n{src}\n--- after\n{out}"})
    return fails


def plan(tier, seed):
    nsh = 16
    q = tier == "quick"
    return [{"kind": "gen", "n": (16000 if q else 160000) // nsh, "seed": env.subseed(seed, ID, "gen", s), "budget_s": 85 if q else 1200} for s in range(nsh)]


def run_shard(spec):
    acc = Acc()

    def go(case):
        info = {}
        fails = evaluate(case, info)
        nontrivial = bool(info.get("changed")) and (info.get("renamed", 0) > 0 or info.get("pure_rename") is False)
        classes = [f"rule:{case['rule'][1]}"]
        if info.get("changed"):
            classes.append("pure-rename" if info.get("pure_rename") else "shape-changed")
            classes += [f"renamed:{r}" for r in info.get("roles", [])]
        else:
            classes.append("unchanged")
        if case.get("preserve"):
            classes.append("with-preserve")
        if info.get("other_rule"):
            acc.excluded["behaviour-change-by-non-renaming-rule:" + info["other_rule"]] += 1
        classes += sorted({f"block:{b}" for b in case["blocks"]})
        acc.case(case, nontrivial, classes, sample={"rule": case["rule"][1], "src": case["src"][:300], "preserve": case.get("preserve")})
        acc.fails(fails)

    hyp.run(programs(), go, spec["n"], spec["seed"], spec["budget_s"], acc, chunk=25)
    return acc
