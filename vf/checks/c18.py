"""C18 - import normalisation keeps every referenced name bound to the same object."""
from __future__ import annotations

import ast
import contextlib
import importlib
import io
import os
import shutil
import sys
import tempfile
import warnings

from hypothesis import strategies as st

from vf import env, hyp, progcheck
from vf.acc import Acc

ID = "C18"
LEVEL = "exploration"
RULE = (
    "(package tree, client module, stage): trees with uniquely named packages are written to a temp directory - a package with "
    "__init__ (empty / re-exporting named / re-exporting with * / defining __all__ / aliasing), a core module with optional __all__ and "
    "private names, a sub-package with a deep module, a plain module re-exporting from the package (chains up to depth 3), and a second "
    "module binding the SAME names to different objects. The client (at the tree root, or inside the package with relative imports) "
    "imports from them and from the standard library in every statement form (import a, import a.b, import a.b as c, from a import b, "
    "from a import b as c, star, stacked, duplicated, unused, shadowing each other, inside functions, after definitions, under if / try) "
    "and appends every imported object it uses to RESULT. Stages: each import rule alone (fix_starred_imports, fix_reimported_names, "
    "remove_unused_imports, fix_duplicate_imports, sort_imports, move_imports_to_toplevel, add_missing_imports, fix_import_spacing), "
    "format_code with and without keep_imports, and format_file on the client file. Oracle: original and rewritten client are imported "
    "as modules in the same process (cwd and sys.path at the tree root, shared sys.modules); RESULT must have the same length and the "
    "identical objects (id) position by position, and the rewritten client must import without error when the original does; when the "
    "original fails with NameError (a missing import the tool may add) the rewritten client may only fail with NameError. Non-trivial = "
    "the set of import statements of the client changed; distinct by case; histogram by stage and import forms."
)
ASSUMPTIONS = [
    "the client does not use a submodule that a starred import of a package binds only by accident (empty __init__, submodule loaded by some other import before)",
    "every import statement of the original client succeeds when executed on its own (clients with a failing import, guarded by try or not, are outside the domain and counted)",
    "objects are module-level functions and tuples of the generated modules and stdlib objects: identity is stable once the module is loaded",
    "the client is formatted with RESULT preserved in whole-pipeline stages (it is the observation channel)",
]
EXHAUSTIVE = {"quick": False, "thorough": False}
STAGES = [
    ("tracing", "fix_starred_imports"), ("tracing", "fix_reimported_names"), ("fixes", "remove_unused_imports"), ("fixes", "fix_duplicate_imports"),
    ("fixes", "sort_imports"), ("fixes", "move_imports_to_toplevel"), ("fixes", "add_missing_imports"), ("fixes", "fix_import_spacing"),
    ("main", "format_code"), ("main", "format_code"), ("main", "format_code"), ("main", "format_code_keep_imports"), ("main", "format_file"),
]


def tree_files(draw, P, M, M2, flip=None):
    """Files of the package tree; returns (files, info).  `flip` = info of another tree: the same tree except for the
    layout of the plain module (passes the names on <-> defines them itself), for history cases."""
    core_all = draw(st.sampled_from([None, None, ["alpha", "beta"], ["alpha", "beta", "gamma", "KAPPA"]]))
    init_kind = draw(st.sampled_from(["empty", "named", "star", "all", "alias", "submodule"]))
    sub_init_kind = draw(st.sampled_from(["empty", "deep", "chain"]))
    plain_kind = draw(st.sampled_from(["reexport", "star", "own", "own_same"]))
    if flip is not None:
        init_kind, sub_init_kind = flip["init"], flip["sub_init"]
        plain_kind = {"reexport": "own_same", "own_same": "reexport", "star": "own_same", "own": "reexport"}[flip["plain"]]
    return build_tree(P, M, M2, core_all, init_kind, sub_init_kind, plain_kind)


def build_tree(P, M, M2, core_all, init_kind, sub_init_kind, plain_kind):
    core = (
        "import os\nfrom collections import OrderedDict\n\n"
        + (f"__all__ = {core_all!r}\n\n" if core_all else "")
        + f"def alpha():\n    return '{P}.core.alpha'\n\n\ndef beta():\n    return '{P}.core.beta'\n\n\n"
        + f"def gamma():\n    return '{P}.core.gamma'\n\n\ndef _private():\n    return '{P}.core._private'\n\n\nKAPPA = ('{P}.core', 'KAPPA')\n"
    )
    init = {
        "empty": "",
        "named": "from .core import alpha, beta\n",
        "star": "from .core import *\n",
        "all": "from .core import alpha, beta, gamma\n\n__all__ = ['alpha', 'gamma']\n",
        "alias": f"from {P}.core import alpha as alpha2, KAPPA\n",
        "submodule": "from . import core\nfrom .core import gamma\n",
    }[init_kind]
    sub_init = {"empty": "", "deep": "from .deep import delta, epsilon\n", "chain": "from ..core import alpha\nfrom .deep import *\n"}[sub_init_kind]
    deep = (f"from {P}.core import beta\n\n\ndef delta():\n    return '{P}.sub.deep.delta'\n\n\ndef epsilon():\n    return '{P}.sub.deep.epsilon'\n\n\n"
            f"LAMBDA = ('{P}.sub.deep', 'LAMBDA')\n")
    plain = {
        "reexport": f"from {P}.core import alpha, KAPPA\nfrom {P}.sub.deep import delta\n\n\ndef zeta():\n    return '{M}.zeta'\n",
        "star": f"from {P}.core import *\nfrom {P}.sub.deep import *\n\n\ndef zeta():\n    return '{M}.zeta'\n",
        "own": f"def zeta():\n    return '{M}.zeta'\n\n\ndef eta():\n    return '{M}.eta'\n",
        # defines itself what the "reexport" layout only passes on: the same client means other objects in the two layouts
        "own_same": (f"def alpha():\n    return '{M}.alpha'\n\n\ndef delta():\n    return '{M}.delta'\n\n\ndef zeta():\n    return '{M}.zeta'\n\n\n"
                     f"KAPPA = ('{M}', 'KAPPA')\n"),
    }[plain_kind]
    other = (f"def alpha():\n    return '{M2}.alpha'\n\n\ndef beta():\n    return '{M2}.beta'\n\n\ndef delta():\n    return '{M2}.delta'\n\n\n"
             f"def zeta():\n    return '{M2}.zeta'\n\n\nKAPPA = ('{M2}', 'KAPPA')\n\n\ndef _private():\n    return '{M2}._private'\n\n\ndef open():\n    return '{M2}.open'\n")
    extra = (f"import {M2}\nimport json as js\nfrom .core import alpha, KAPPA as KAPPA2\nfrom . import core\nfrom .sub.deep import delta as delta2\n\n\n"
             f"def theta():\n    return '{P}.extra.theta'\n")
    files = {f"{P}/extra.py": extra, f"{P}/__init__.py": init, f"{P}/core.py": core, f"{P}/sub/__init__.py": sub_init, f"{P}/sub/deep.py": deep, f"{M}.py": plain, f"{M2}.py": other}
    # decoys: top-level modules named like the package's own modules; a RELATIVE import must never be resolved to them
    files["core.py"] = "def alpha():\n    return 'decoy.core.alpha'\n\n\ndef beta():\n    return 'decoy.core.beta'\n\n\nKAPPA = ('decoy', 'KAPPA')\n"
    files["deep.py"] = "def delta():\n    return 'decoy.deep.delta'\n\n\nLAMBDA = 'decoy'\n"
    return files, {"init": init_kind, "sub_init": sub_init_kind, "plain": plain_kind, "core_all": bool(core_all)}


def import_items(P, M, M2, relative, init_kind="named"):
    """(statement, [use expressions], form class) candidates; the uses are guarded at run time, see client()."""
    items = [
        (f"import {P}", [f"{P}.core.alpha", f"{P}.alpha", f"{P}.gamma"], "import-package"),
        (f"import {P}.core", [f"{P}.core.alpha", f"{P}.core.KAPPA"], "import-dotted"),
        (f"import {P}.sub.deep", [f"{P}.sub.deep.delta", f"{P}.core.beta"], "import-dotted"),
        (f"import {P}.core as pc", ["pc.alpha", "pc.beta"], "import-dotted-as"),
        (f"import {M} as pm", ["pm.zeta"], "import-as"),
        (f"import {M}, {M2}", [f"{M}.zeta", f"{M2}.zeta"], "import-stacked"),
        (f"from {P} import core", ["core.alpha", "core.KAPPA"], "from-import-module"),
        (f"from {P} import sub", ["sub.deep.delta"], "from-import-module"),
        (f"from {P}.core import alpha", ["alpha"], "from-import"),
        (f"from {P}.core import alpha, beta, KAPPA", ["alpha", "beta", "KAPPA"], "from-import"),
        (f"from {P}.core import alpha as a1", ["a1"], "from-import-as"),
        (f"from {P}.core import *", ["alpha", "beta", "gamma", "KAPPA"], "star"),
        (f"from {P}.sub.deep import *", ["delta", "epsilon", "LAMBDA", "beta"], "star"),
        # (with an empty __init__ the package has a 'core' attribute only if something else happened to import the
        #  submodule before: such accidental bindings are not used by the client)
        (f"from {P} import *", ["alpha", "beta", "gamma", "alpha2"] + ([] if init_kind == "empty" else ["core"]), "star-package"),
        (f"from {P} import alpha", ["alpha"], "reexport-init"),
        (f"from {P} import alpha2", ["alpha2"], "reexport-init"),
        (f"from {P} import gamma", ["gamma"], "reexport-init"),
        (f"from {M} import alpha", ["alpha"], "reexport-chain"),
        (f"from {M} import delta, zeta", ["delta", "zeta"], "reexport-chain"),
        (f"from {M} import *", ["alpha", "zeta", "delta", "KAPPA"], "star-chain"),
        (f"from {P}.core import os as oz", ["oz.sep", "oz.path.join"], "reexport-plain-import"),
        (f"from {P}.core import os", ["os.sep"], "reexport-plain-import"),
        (f"from {P}.extra import {M2} as other", ["other.zeta", "other.alpha"], "reexport-plain-import"),
        (f"from {P}.extra import js as jsn", ["jsn.dumps"], "reexport-plain-import"),
        (f"from {P}.extra import alpha, theta", ["alpha", "theta"], "reexport-relative"),
        (f"from {P}.extra import KAPPA2, delta2, core", ["KAPPA2", "delta2", "core.beta"], "reexport-relative"),
        (f"from {P}.extra import *", ["alpha", "theta", "KAPPA2"], "star-chain"),
        (f"from {P}.sub import delta", ["delta"], "reexport-sub"),
        (f"from {P}.sub import alpha", ["alpha"], "reexport-sub"),
        (f"from {M2} import alpha", ["alpha"], "same-name-other-object"),
        (f"from {M2} import alpha, beta, delta, zeta, KAPPA", ["alpha", "beta", "delta", "zeta", "KAPPA"], "same-name-other-object"),
        (f"from {M2} import *", ["alpha", "zeta"], "same-name-other-object"),
        (f"from {P}.core import _private", ["_private"], "underscore-name"),
        (f"from {M2} import _private", ["_private"], "underscore-name"),
        (f"from {M2} import open", ["open"], "builtin-name"),
        (f"try:\n    from {M} import zeta_missing as opt\nexcept ImportError:\n    opt = None", ["opt"], "optional-import-idiom"),
        (f"import {M}\ntry:\n    from {M} import zeta_missing\nexcept ImportError:\n    pass", [f"{M}.zeta"], "optional-import-idiom"),
        ("import os", ["os.path.join", "os.sep"], "stdlib"),
        ("import os.path", ["os.path.join", "os.getcwd"], "stdlib-dotted"),
        ("from os import path", ["path.join"], "stdlib-from"),
        ("from os.path import join", ["join"], "stdlib-from"),
        ("import collections.abc", ["collections.abc.Sequence", "collections.OrderedDict"], "stdlib-dotted"),
        ("from collections import abc", ["abc.Sequence"], "stdlib-from"),
        ("from math import *", ["floor", "pi"], "stdlib-star"),
        ("import json as js", ["js.dumps"], "stdlib-as"),
        ("from pathlib import Path", ["Path"], "stdlib-from"),
        ("import re, math", ["re.compile", "math.floor"], "stdlib-stacked"),
        ("from typing import Sequence, List", ["Sequence"], "stdlib-from"),
    ]
    if relative == 2:
        items += [
            ("from . import deep", ["deep.delta"], "relative"),
            ("from .. import core", ["core.alpha", "core.KAPPA"], "relative-parent"),
            ("from .deep import delta, LAMBDA", ["delta", "LAMBDA"], "relative"),
            ("from ..core import alpha, KAPPA", ["alpha", "KAPPA"], "relative-parent"),
            ("from ..core import *", ["alpha", "beta"], "relative-star"),
            ("from .. import extra", ["extra.theta"], "relative-parent"),
        ]
    if relative == 1:
        items += [
            ("from . import core", ["core.alpha"], "relative"),
            ("from .core import alpha, KAPPA", ["alpha", "KAPPA"], "relative"),
            ("from .core import *", ["alpha", "beta"], "relative-star"),
            ("from .sub.deep import delta", ["delta"], "relative"),
            ("from .sub import deep", ["deep.delta"], "relative"),
        ]
    return items


MISSING_USES = ["os.sep", "re.compile", "math.floor", "Path", "Sequence", "json.dumps", "sys.path", "itertools.chain"]


@st.composite
def cases(draw):
    """One client in one tree; every sixth case is a HISTORY: the same process first formats another client in another
    tree that uses the SAME package and module names with a different layout, and the caches are not cleared in between."""
    uid = draw(st.integers(0, 16 ** 6 - 1))
    case = draw(one_case(uid))
    if draw(st.integers(0, 5)) == 0:
        if draw(st.booleans()):
            case["after"] = draw(one_case(uid))
        else:
            # the SAME client in a tree whose plain module has the other layout; the client imports a name that the
            # plain module passes on in one layout and defines itself in the other, and the stage is one that redirects
            P, M, M2 = f"vq{uid:06x}p", f"vq{uid:06x}m", f"vq{uid:06x}o"
            main_plain = draw(st.sampled_from(["reexport", "own_same"]))
            other = {"reexport": "own_same", "own_same": "reexport"}[main_plain]
            case["files"], case["tree"] = tree_files(draw, P, M, M2, flip=dict(case["tree"], plain=other))
            case["client"] += f"from {M} import delta\nRESULT.append(delta)\n"
            case["forms"] = sorted(set(case["forms"]) | {"reexport-chain"})
            case["stage"] = list(draw(st.sampled_from([("tracing", "fix_reimported_names"), ("main", "format_code"), ("main", "format_file"), ("tracing", "fix_starred_imports")])))
            files, info = tree_files(draw, P, M, M2, flip=case["tree"])
            case["after"] = dict(case, files=files, tree=info)
        case["forms"] = sorted(set(case["forms"]) | {"after-another-tree-with-the-same-names"})
    return case


@st.composite
def one_case(draw, uid):
    P, M, M2 = f"vq{uid:06x}p", f"vq{uid:06x}m", f"vq{uid:06x}o"
    files, tree_info = tree_files(draw, P, M, M2)
    relative = draw(st.sampled_from([0, 0, 0, 0, 0, 0, 1, 2]))  # 0: client at the tree root, 1: inside the package, 2: inside the sub-package
    items = import_items(P, M, M2, relative, tree_info["init"])
    chosen = draw(st.lists(st.sampled_from(items), min_size=1, max_size=5))
    lines = ["RESULT = []", ""]
    forms = set()
    later = []
    for stmt, uses, form in chosen:
        forms.add(form)
        place = draw(st.sampled_from(["top", "top", "top", "function", "after-def", "if", "try", "unused", "twice", "after-own-def", "rebound", "own-binding"]))
        if form == "builtin-name":
            place = draw(st.sampled_from(["function", "function", "top"]))
        if "try:" in stmt:
            place = "top" if place not in ("after-def",) else place
        used = draw(st.lists(st.sampled_from(uses), min_size=1, max_size=len(uses), unique=True))
        use_lines = [f"RESULT.append({u})" for u in used]
        simple = "\n" not in stmt and "," not in stmt and "*" not in stmt
        bound_name = None
        if simple and stmt.startswith("import "):
            bound_name = stmt.split(" as ")[1] if " as " in stmt else stmt.split()[1].split(".")[0]
        elif simple and stmt.startswith("from ") and not stmt.startswith("from ."):
            bound_name = stmt.split(" as ")[1] if " as " in stmt else stmt.split(" import ")[1]
        if place == "own-binding" and bound_name and bound_name.isidentifier() and all(u == bound_name or u.startswith(bound_name + ".") for u in used):
            # a function that imports lazily and binds the same name itself as well (a parameter)
            k = len(lines)
            lines += [f"def fn_{k}({bound_name}=None):", f"    if {bound_name} is None:", f"        {stmt}", f"    return ({', '.join(used)},)", ""]
            later.append(f"RESULT.extend(fn_{k}())")
            forms.add("inside-function-that-binds-the-name-itself")
        elif place == "rebound" and stmt.startswith("import ") and " as " not in stmt and "," not in stmt and "\n" not in stmt:
            # the same plain import twice, with the name bound to something else in between
            bound = stmt.split()[1].split(".")[0]
            lines += [stmt, f"{bound} = None", f"RESULT.append({bound})", stmt]
            later += use_lines
            forms.add("rebound-between-duplicates")
        elif place == "top":
            lines.append(stmt)
            later += use_lines
        elif place == "twice":
            lines += [stmt, stmt]
            later += use_lines
            forms.add("duplicated")
        elif place == "unused":
            lines.append(stmt)
            forms.add("unused")
        elif place == "function" and "*" not in stmt:
            k = len(lines)
            lines += [f"def fn_{k}():", f"    {stmt}", f"    return ({', '.join(used)},)", ""]
            later.append(f"RESULT.extend(fn_{k}())")
            forms.add("inside-function")
            if form == "builtin-name":
                later.append("RESULT.append(open)")  # the builtin, as long as the import stays in its function
        elif place == "after-own-def" and "*" not in stmt and all("." not in u for u in used):
            # the client defines the name itself first; the import rebinds it later
            for u in used:
                later += [f"def {u}():", f"    return 'client.{u}'", "", f"RESULT.append({u})"]
            later += [stmt] + use_lines
            forms.add("import-after-own-definition")
        elif place == "after-def":
            k = len(lines)
            later += [f"def helper_{k}(x):", "    return x", "", stmt] + use_lines
            forms.add("after-definition")
        elif place == "if":
            lines += ["if RESULT is not None:", f"    {stmt}"]
            later += use_lines
            forms.add("under-if")
        elif place == "try":
            lines += ["try:", f"    {stmt}", "except ImportError:", "    pass"]
            later += use_lines
            forms.add("under-try")
        else:
            lines.append(stmt)
            later += use_lines
    missing = None
    if draw(st.integers(0, 5)) == 0:
        missing = draw(st.sampled_from(MISSING_USES))
        later.append(f"RESULT.append({missing})")
        forms.add("missing-import")
    client = "\n".join(lines + [""] + later) + "\n"
    stage = draw(st.sampled_from(STAGES))
    return {"files": files, "client": client, "client_path": [f"vq{uid:06x}c.py", f"{P}/client_mod.py", f"{P}/sub/client_mod.py"][relative], "stage": list(stage),
            "forms": sorted(forms), "tree": tree_info, "prefix": f"vq{uid:06x}", "missing": missing}


def _exec_client(path, modname):
    """(RESULT so far or None, exception class name or None, text): the client executed as module `modname`
    (parent packages imported first, so that relative imports work); RESULT survives an exception."""
    ns = {"__name__": modname, "__file__": path, "__package__": modname.rpartition(".")[0] or None, "__builtins__": __builtins__}
    exc = None
    try:
        with contextlib.redirect_stdout(io.StringIO()), contextlib.redirect_stderr(io.StringIO()), warnings.catch_warnings():
            warnings.simplefilter("ignore")
            with env.alarm(20):
                if ns["__package__"]:
                    importlib.import_module(ns["__package__"])
                with open(path) as fh:
                    code = compile(fh.read(), path, "exec")
                exec(code, ns)
    except Exception as e:  # generated programs: any exception is data
        exc = e
    return ns.get("RESULT"), type(exc).__name__ if exc else None, str(exc)[:300] if exc else ""


def imports_all_work(client, modname):
    """Every import statement of the client, executed on its own as part of module `modname`, succeeds."""
    try:
        tree = ast.parse(client)
    except SyntaxError:
        return False
    package = modname.rpartition(".")[0] or None
    try:
        with warnings.catch_warnings():
            warnings.simplefilter("ignore")
            if package:
                importlib.import_module(package)
            for node in ast.walk(tree):
                if isinstance(node, (ast.Import, ast.ImportFrom)):
                    if any(a.name.endswith("_missing") for a in node.names):
                        continue  # the one deliberate failure: the optional-import idiom (try / except ImportError with a fallback)
                    exec(compile(ast.unparse(node), "<import>", "exec"), {"__name__": modname, "__package__": package})
    except Exception:
        return False
    return True


def rewrite(case, root):
    modname, fname = case["stage"]
    src = case["client"]
    if not case.get("after"):
        env.clear_caches()  # (a history case keeps what the earlier call of the same process left behind)
    main = env.mod("main")
    if fname == "format_code":
        return progcheck.run_tool(main.format_code, src, preserve=frozenset({"RESULT"}))[:2]
    if fname == "format_code_keep_imports":
        return progcheck.run_tool(main.format_code, src, preserve=frozenset({"RESULT"}), keep_imports=True)[:2]
    if fname == "format_file":
        path = os.path.join(root, case["client_path"])

        def go(_):
            from pathlib import Path
            main.format_file(Path(path), preserve=frozenset({"RESULT"}))
            with open(path) as fh:
                return fh.read()

        status, out, _ = progcheck.run_tool(go, src)
        with open(path, "w") as fh:
            fh.write(src)  # the original stays the original
        return status, out
    fn = getattr(env.mod(modname), fname)
    return progcheck.run_tool(fn, src)[:2]


def import_statements(src):
    try:
        tree = ast.parse(src)
    except SyntaxError:
        return None
    return sorted(ast.unparse(n) for n in ast.walk(tree) if isinstance(n, (ast.Import, ast.ImportFrom)))


def evaluate(case, info=None):
    info = info if info is not None else {}
    fails = []

    def fail(bucket, detail):
        files = "\n".join(f"--- {k}\n{v}" for k, v in sorted(case["files"].items()))
        fails.append({"bucket": bucket, "case": case, "detail": f"stage {case['stage'][1]} tree {case['tree']}\n{detail}\n--- client ({case['client_path']})\n{case['client']}\n{files}"})

    kept_roots = []
    if case.get("after"):
        # the earlier call: same names, other layout (its own verdict is not used here); like another project that the
        # same process formatted before, its files are still on disk while the later call runs
        evaluate(dict(case["after"], _keep_root=kept_roots), {})
    root = tempfile.mkdtemp(prefix="vf_c18_")
    cwd = os.getcwd()
    saved_path = list(sys.path)
    try:
        for rel, content in case["files"].items():
            p = os.path.join(root, rel)
            os.makedirs(os.path.dirname(p), exist_ok=True)
            with open(p, "w") as fh:
                fh.write(content)
        cpath = os.path.join(root, case["client_path"])
        with open(cpath, "w") as fh:
            fh.write(case["client"])
        os.chdir(root)
        sys.path.insert(0, root)
        importlib.invalidate_caches()
        modname = case["client_path"][:-3].replace("/", ".")
        if not imports_all_work(case["client"], modname):
            info["status"] = "out-of-domain:failing-import"
            return []  # an import statement of the ORIGINAL client fails (guarded by try or not): outside the domain
        status, out = rewrite(case, root)
        info["status"] = status
        if status != "ok" or not isinstance(out, str):
            return []  # crashes / hangs are C04's
        info["changed"] = out != case["client"]
        before_imports, after_imports = import_statements(case["client"]), import_statements(out)
        if after_imports is None:
            return []  # validity is C03's
        info["imports_changed"] = before_imports != after_imports
        if out == case["client"]:
            return []
        fmt_path = cpath[:-3] + "_fmt.py"
        with open(fmt_path, "w") as fh:
            fh.write(out)
        importlib.invalidate_caches()
        orig = _exec_client(cpath, modname)
        new = _exec_client(fmt_path, modname + "_fmt")
        info["orig_exc"] = orig[1]
        if orig[1] is not None:
            # The original fails. Only one class is judged: the failure is the NameError of the generated missing
            # import (the tool may add that import): everything the original bound before it must be bound as before,
            # and the rewritten client may fail with that NameError or not at all.
            missing = case.get("missing")
            if orig[1] == "NameError" and missing and f"'{missing.split('.')[0]}'" in orig[2] and isinstance(orig[0], list):
                if new[1] not in (None, "NameError"):
                    fail(f"{case['stage'][1]}:rewritten-client-fails:{new[1]}", f"original: NameError {orig[2]}\nrewritten: {new[1]} {new[2]}\n--- rewritten client\n{out}")
                elif not isinstance(new[0], list) or len(new[0]) < len(orig[0]) or any(not same_object(x, y, modname) for x, y in zip(orig[0], new[0])):
                    fail(f"{case['stage'][1]}:name-bound-to-other-object", f"prefix of RESULT before the missing name differs\n--- rewritten client\n{out}")
            return fails
        if new[1] is not None:
            fail(f"{case['stage'][1]}:rewritten-client-fails:{new[1]}", f"{new[1]}: {new[2]}\n--- rewritten client\n{out}")
            return fails
        a, b = orig[0], new[0]
        if not isinstance(a, list) or not isinstance(b, list):
            fail(f"{case['stage'][1]}:RESULT-missing", f"--- rewritten client\n{out}")
            return fails
        if len(a) != len(b):
            fail(f"{case['stage'][1]}:RESULT-length", f"{len(a)} -> {len(b)}\n--- rewritten client\n{out}")
            return fails
        for k, (x, y) in enumerate(zip(a, b)):
            if not same_object(x, y, modname):
                fail(f"{case['stage'][1]}:name-bound-to-other-object", f"RESULT[{k}]: {describe(x)} -> {describe(y)}\n--- rewritten client\n{out}")
                break
        return fails
    finally:
        os.chdir(cwd)
        sys.path[:] = saved_path
        for name in [n for n in sys.modules if n.startswith(case["prefix"]) or n in ("core", "deep")]:
            sys.modules.pop(name, None)
        importlib.invalidate_caches()
        if case.get("_keep_root") is not None:
            case["_keep_root"].append(root)  # the tree of an earlier call stays on disk while the later call runs
        else:
            shutil.rmtree(root, ignore_errors=True)
        for kept in kept_roots:
            shutil.rmtree(kept, ignore_errors=True)


def same_object(x, y, modname):
    """Identity, except for functions that the client defines itself (each execution of the client creates its own)."""
    if x is y:
        return True
    mx, my = getattr(x, "__module__", None), getattr(y, "__module__", None)
    if callable(x) and callable(y) and mx == modname and my == modname + "_fmt":
        try:
            return x.__name__ == y.__name__ and x() == y()
        except Exception:
            return False
    return False


def describe(obj):
    try:
        if callable(obj) and getattr(obj, "__module__", "").startswith("vq"):
            return f"{obj.__module__}.{obj.__name__} -> {obj()!r}"
    except Exception:
        pass
    return repr(obj)[:120]


# stages that change the ORDER of import statements: sorting, moving imports to the top, re-inserting redirected imports at the top,
# and merging a later duplicate into the first occurrence
SORTING_STAGES = {"sort_imports", "move_imports_to_toplevel", "fix_reimported_names", "fix_duplicate_imports", "format_code", "format_code_keep_imports", "format_file"}


def order_sensitive_imports(case):
    """F-C18-01: the client has imports whose ORDER decides what a name means - two imports bind one name from different
    sources, or a starred import provides a name that another import binds - and the stage sorts imports."""
    if case["stage"][1] not in SORTING_STAGES:
        return False
    try:
        tree = ast.parse(case["client"])
    except SyntaxError:
        return False
    sources = {}
    stars = []

    def module_level(n):
        # imports inside functions bind local names: they take no part in the order of the module's bindings
        for child in ast.iter_child_nodes(n):
            if isinstance(child, (ast.FunctionDef, ast.AsyncFunctionDef, ast.Lambda)):
                continue
            yield child
            yield from module_level(child)

    for node in module_level(tree):
        if isinstance(node, ast.ImportFrom):
            for a in node.names:
                if a.name == "*":
                    stars.append((node.level, node.module))
                else:
                    sources.setdefault(a.asname or a.name, set()).add(((node.level, node.module), a.name))
        elif isinstance(node, ast.Import):
            for a in node.names:
                if a.asname:
                    sources.setdefault(a.asname, set()).add((None, a.name))
                else:
                    sources.setdefault(a.name.split(".")[0], set()).add((None, a.name.split(".")[0]))
    if any(len(v) > 1 for v in sources.values()):
        return True
    if stars and (len(set(stars)) > 1 or sources):
        # a starred import next to other imports: it may provide one of their names (decided on the module's text)
        for level, module in stars:
            text = ""
            for rel, content in case["files"].items():
                if module and rel.replace("/", ".").removesuffix(".py").removesuffix(".__init__").endswith(module):
                    text += content
            if not module or module in ("math",):
                text += " pi floor gamma "
            import re as _re
            words = set(_re.findall(r"\w+", text))
            if "*" in text or any(name in words for name in sources) or len(set(stars)) > 1:
                return True
    return False


PREDICATES = {"order_sensitive_imports": order_sensitive_imports}


def plan(tier, seed):
    nsh = 16
    q = tier == "quick"
    return [{"kind": "gen", "n": (24000 if q else 240000) // nsh, "seed": env.subseed(seed, ID, "gen", s), "budget_s": 85 if q else 1200} for s in range(nsh)]


def run_shard(spec):
    acc = Acc()

    def go(case):
        if order_sensitive_imports(case):
            acc.excluded["F-C18-01"] += 1  # known finding: sorting reorders imports that bind the same name
            return
        info = {}
        fails = evaluate(case, info)
        classes = [f"stage:{case['stage'][1]}"] + [f"form:{f}" for f in case["forms"]] + [f"init:{case['tree']['init']}", f"plain:{case['tree']['plain']}"]
        classes.append("imports-changed" if info.get("imports_changed") else "imports-unchanged")
        if info.get("orig_exc"):
            classes.append("original-raises:" + info["orig_exc"])
        if info.get("status") not in (None, "ok"):
            classes.append("tool-" + str(info.get("status")))
        acc.case(case, bool(info.get("imports_changed")), classes, sample={"stage": case["stage"][1], "client": case["client"][:400], "tree": case["tree"]})
        acc.fails(fails)

    hyp.run(cases(), go, spec["n"], spec["seed"], spec["budget_s"], acc, chunk=20)
    return acc
