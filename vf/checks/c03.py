"""C03 - valid Python in, valid Python out; a valid file is never replaced by an invalid one; an unchanged file is not rewritten."""
from __future__ import annotations

import ast
import os
import shutil
import tempfile
import textwrap
import time
import warnings

from hypothesis import strategies as st

from vf import env, hyp, progcheck, trace
from vf.acc import Acc
from vf.gen import corpus, families, patterns, programs, texts
from vf.checks.c04 import options

ID = "C03"
LEVEL = "fault_enumeration"
RULE = (
    "inputs: valid modules from the rule families (all placements incl. indented fragments), grammar programs, the syntax zoo with "
    "placement metamorphs, literal-heavy sources, both sides of the repository's examples, vendored stdlib modules; entry points "
    "format_code (drawn options), every registered rule, pattern_matching.sub/subn with derived (pattern, replacement) pairs, and "
    "format_file on temp files; plus fault injection on the write guard: format_code replaced by stubs returning invalid / identical / "
    "different valid text for valid and invalid original files (6 cells). Oracle: ast.parse(result) succeeds whenever ast.parse(input) "
    "does (after dedent for fragments); file bytes and mtime_ns unchanged and return value falsy when the formatted text equals the content; "
    "a valid file never ends up invalid. Non-trivial = the output differs from the input (a rewrite happened) or a fault-injection cell; "
    "distinct by (entry point, input)."
)
ASSUMPTIONS = ["syntactic validity = ast.parse; compile()-level errors (break outside loop) surface in C01/C02 as does-not-compile"]
EXHAUSTIVE = {"quick": False, "thorough": False}


def parses(src):
    with warnings.catch_warnings():
        warnings.simplefilter("ignore")
        for cand in (src, textwrap.dedent(src)):
            try:
                ast.parse(cand)
                return True
            except (SyntaxError, ValueError, RecursionError):
                continue
    return False


def strictly_parses(src):
    with warnings.catch_warnings():
        warnings.simplefilter("ignore")
        try:
            ast.parse(src)
            return True
        except (SyntaxError, ValueError, RecursionError):
            return False


def check_format(case):
    src = case["src"]
    env.clear_caches()
    status, out, _ = progcheck.run_tool(env.mod("main").format_code, src, **progcheck.fmt_opts(case.get("opts")))
    if status != "ok" or not isinstance(out, str):
        return [], None
    if not parses(out):
        return [{"bucket": "format_code:invalid-output", "case": case, "detail": f"--- input\n{src[:1200]}\n--- output\n{out[:1200]}"}], out
    return [], out


def check_rule(case):
    src = case["src"]
    modname, fname = case["rule"]
    fn = getattr(env.mod(modname), fname)
    env.clear_caches()
    kwargs = {}
    inner = getattr(fn, "_fix_func", fn)
    code = getattr(inner, "__code__", None)
    if code is not None and "preserve" in code.co_varnames[: code.co_argcount + code.co_kwonlyargcount]:
        kwargs["preserve"] = frozenset(case.get("preserve", ()))
    if fname == "overused_constant":
        kwargs["root_is_static"] = True
    status, out, _ = progcheck.run_tool(fn, src, **kwargs)
    if status != "ok" or not isinstance(out, str):
        return [], None
    if not parses(out):
        return [{"bucket": f"{fname}:invalid-output", "case": case, "detail": f"--- input\n{src[:1200]}\n--- output\n{out[:1200]}"}], out
    return [], out


def check_sub(case):
    pm = env.mod("pattern_matching")
    env.clear_caches()
    status, out, _ = progcheck.run_tool(pm.subn, case["pattern"], case["repl"], case["src"], case.get("count", 0))
    if status != "ok":
        if status == "crash" and isinstance(out, (ValueError, SyntaxError, AssertionError, KeyError)):
            return [], None  # a pattern/replacement the API rejects
        return [], None
    text = out[0]
    if not parses(text):
        return [{"bucket": "sub:invalid-output", "case": case,
                 "detail": f"pattern {case['pattern']!r} repl {case['repl']!r}\n--- input\n{case['src'][:1000]}\n--- output\n{text[:1000]}"}], text
    return [], text


def check_file(case):
    """format_file on a temp file; case = {"kind": "file", "src", "stub": None|"invalid"|"identical"|"valid", "safe"}"""
    main = env.mod("main")
    src = case["src"]
    d = tempfile.mkdtemp(prefix="vf_c03_")
    fails = []
    real_format_code = main.format_code
    try:
        path = os.path.join(d, case.get("name", "mod.py"))
        with open(path, "w", encoding="utf-8", newline="") as fh:
            fh.write(src)
        os.utime(path, ns=(1_000_000_000, 1_000_000_000))
        before = os.stat(path)
        with open(path, encoding="utf-8") as fh:
            src = fh.read()  # what format_file sees: universal newlines
        stub = case.get("stub")
        if stub == "invalid":
            main.format_code = lambda s, **k: "def broken(:\n"
        elif stub == "identical":
            main.format_code = lambda s, **k: s
        elif stub == "valid":
            main.format_code = lambda s, **k: "replaced = 1\n"
        env.clear_caches()
        opened_for_write = []
        real_open = open

        def spy_open(file, mode="r", *a, **k):
            if any(c in mode for c in "wax+"):
                opened_for_write.append(str(file))
            return real_open(file, mode, *a, **k)

        main.open = spy_open
        try:
            status, ret, _ = progcheck.run_tool(main.format_file, path, **({"safe": True} if case.get("safe") else {}))
        finally:
            main.format_code = real_format_code
            try:
                del main.open
            except AttributeError:
                pass
        if status != "ok":
            return []
        with real_open(path, encoding="utf-8") as fh:
            now = fh.read()
        after = os.stat(path)
        was_valid = strictly_parses(src)  # a file is valid only as it stands (no dedent)
        env.clear_caches()
        if stub is None:
            st2, expected, _ = progcheck.run_tool(real_format_code, src, keep_imports=case.get("name") == "__init__.py", safe=bool(case.get("safe")))
            if st2 != "ok":
                return []
        else:
            expected = {"invalid": "def broken(:\n", "identical": src, "valid": "replaced = 1\n"}[stub]
        cell = f"{stub or 'real'}:{'valid' if was_valid else 'invalid'}-original"
        if was_valid and not strictly_parses(now):
            fails.append({"bucket": f"file:valid-file-became-invalid:{cell}", "case": case, "detail": f"--- before\n{src[:600]}\n--- on disk\n{now[:600]}"})
        if expected == src:
            if now != src or after.st_mtime_ns != before.st_mtime_ns or opened_for_write:
                fails.append({"bucket": f"file:unchanged-file-rewritten:{cell}", "case": case,
                              "detail": f"formatted text equals the content, but opened for write: {opened_for_write}, mtime {before.st_mtime_ns} -> {after.st_mtime_ns}"})
            if ret:
                fails.append({"bucket": f"file:change-reported-for-unchanged-file:{cell}", "case": case, "detail": repr(ret)})
        elif strictly_parses(expected) and was_valid:
            if now != expected:
                fails.append({"bucket": f"file:valid-result-not-written:{cell}", "case": case, "detail": f"--- expected\n{expected[:500]}\n--- on disk\n{now[:500]}"})
            if not ret:
                fails.append({"bucket": f"file:change-not-reported:{cell}", "case": case, "detail": repr(ret)})
        elif was_valid and not strictly_parses(expected):
            if now != src:
                fails.append({"bucket": f"file:invalid-result-written:{cell}", "case": case, "detail": now[:500]})
        return fails
    finally:
        main.format_code = real_format_code
        shutil.rmtree(d, ignore_errors=True)


def check_synthetic(case):
    """Fault injection through the public decorators: synthetic rules (C10's generator) including unparsable replacements."""
    from vf.checks import c10
    processing = env.mod("processing")
    source, stmts, rewrites = c10.materialise(case["c10"])
    ngroups = max(r["g"] for r in rewrites) + 1
    rules = c10.make_rules(source, rewrites, ngroups)
    fails = []
    outs = {}
    env.clear_caches()
    try:
        outs["chain"] = processing.chain(rules)(source)
        if ngroups == 1:
            outs["fix"] = processing.fix(rules[0])(source)
    except Exception as exc:
        # an unparsable pass result must be rolled back, not parsed: a crash here is the validity net failing
        return [{"bucket": "synthetic:exception:" + env.exc_bucket(exc), "case": case, "detail": f"{exc!r}\n{source}"}], None
    for name, out in outs.items():
        if isinstance(out, str) and not parses(out):
            fails.append({"bucket": f"synthetic-{name}:invalid-output", "case": case, "detail": f"--- input\n{source}\n--- output\n{out}"})
    return fails, outs.get("chain")


def check_alter(case):
    """processing.alter_code with generated statement removals / replacements / additions on a valid source."""
    processing = env.mod("processing")
    core = env.mod("core")
    src = case["src"]
    env.clear_caches()
    root = core.parse(src)
    stmts = [n for n in ast.walk(root) if isinstance(n, ast.stmt)]
    stmts.sort(key=lambda n: (n.lineno, n.col_offset))
    removals = [stmts[i] for i in case["remove"][:1] if i < len(stmts)]  # one removal: the per-call contract of remove_nodes
    # implicit preconditions of the callers: the removed statement sits in the body/orelse of a module, definition,
    # loop, if or with (not in try/except/match arms); replacements and additions are not driven here
    owners = {}
    for owner in ast.walk(root):
        if isinstance(owner, (ast.Module, ast.FunctionDef, ast.AsyncFunctionDef, ast.ClassDef, ast.For, ast.While, ast.If, ast.With)):
            for field in ("body", "orelse"):
                for child in getattr(owner, field, []) or []:
                    owners[child] = owner
    removals = [r for r in removals if r in owners and not any(isinstance(n, (ast.Try, ast.Match)) for n in ast.walk(r))]
    case = dict(case, replace=[], add=[])
    replacements = {}
    for k, i in enumerate(case["replace"]):
        if i < len(stmts) and stmts[i] not in removals and not any(stmts[i] in ast.walk(r) for r in removals):
            replacements[stmts[i]] = ast.parse(f"vf_marker_{k} = 0").body[0]
    additions = []
    for k, i in enumerate(case["add"]):
        if i < len(stmts):
            additions.append(ast.Assign(targets=[ast.Name(id=f"vf_added_{k}", ctx=ast.Store())], value=ast.Constant(value=0),
                                        lineno=stmts[i].lineno - 1, col_offset=stmts[i].col_offset))
    additions = [a for a in additions if a.lineno >= 1]
    if not (removals or replacements or additions):
        return [], None
    status, out, _ = progcheck.run_tool(processing.alter_code, src, root, additions=additions, removals=removals, replacements=replacements)
    if status == "crash" and isinstance(out, SyntaxError):
        return [{"bucket": "alter_code:unparsable-intermediate", "case": case, "detail": f"{out!r}\nremove {case['remove']} replace {case['replace']} add {case['add']}\n{src[:900]}"}], None
    if status != "ok" or not isinstance(out, str):
        return [], None
    if not parses(out):
        return [{"bucket": "alter_code:invalid-output", "case": case, "detail": f"remove {case['remove']} replace {case['replace']} add {case['add']}\n--- input\n{src[:900]}\n--- output\n{out[:900]}"}], out
    if removals and not replacements and not additions:
        # reference: the tree without the removed statement ('pass' where a body would be empty)
        import copy
        want = copy.deepcopy(root)
        line, col = removals[0].lineno, removals[0].col_offset
        for owner in ast.walk(want):
            for field in ("body", "orelse", "finalbody"):
                lst = getattr(owner, field, None)
                if isinstance(lst, list):
                    for child in list(lst):
                        if isinstance(child, ast.stmt) and type(child) is type(removals[0]) and (child.lineno, child.col_offset) == (line, col):
                            lst.remove(child)
                            if not lst and not isinstance(owner, ast.Module):  # an emptied else/finally keeps a 'pass' as well
                                lst.append(ast.Pass())
        def norm(tree):
            # 'pass' placeholders carry no meaning: next to other statements, or alone in an else / finally
            for owner in ast.walk(tree):
                for field in ("body", "orelse", "finalbody"):
                    lst = getattr(owner, field, None)
                    if isinstance(lst, list) and lst and isinstance(lst[0], ast.stmt):
                        rest = [x for x in lst if not isinstance(x, ast.Pass)]
                        if rest or field != "body" or isinstance(owner, ast.Module):
                            lst[:] = rest
                        else:
                            lst[:] = [ast.Pass()]
            return ast.unparse(tree)

        try:
            same = norm(ast.parse(out)) == norm(ast.parse(ast.unparse(want)))
        except (SyntaxError, ValueError):
            same = True
        if not same:
            return [{"bucket": "alter_code:other-code-changed", "case": case, "detail": f"remove {case['remove']}\n--- input\n{src[:900]}\n--- output\n{out[:900]}"}], out
    return [], out


# replacement expressions for alter_code(replacements=...): (label, source text, fits every expression slot as unparsed?)
EXPR_POOL = [
    ("name", "vf_marker", True), ("call", "vf_marker(1)", True), ("attr", "vf_marker.a", True), ("subscript", "vf_marker[0]", True),
    ("genexp", "(v for v in vf_marker)", True), ("list", "[vf_marker, 1]", True),
    ("binop", "vf_marker + 1", False), ("ifexp", "vf_marker if a else b", False), ("lambda", "lambda: vf_marker", False),
    ("walrus", "(vf_marker := 1)", False), ("yield", "(yield vf_marker)", False), ("await", "await vf_marker", False),
    ("tuple", "(vf_marker, 1)", False), ("starred", "[*vf_marker][0]", False), ("boolop", "vf_marker or 1", False), ("not", "not vf_marker", False),
    ("compare", "vf_marker < 1", False),
]


def check_alter_expr(case):
    """processing.alter_code(replacements={expression node: expression node}) - the path of the rules that replace through
    _replace_nodes.  Replacements whose bare unparsed text does not fit the slot (a walrus or a yield without parentheses, a
    lambda in a tight slot) must be rolled back or parenthesised, never spliced into an unparsable result; an atom-like
    replacement must give exactly the source tree with that node replaced."""
    processing = env.mod("processing")
    core = env.mod("core")
    src = case["src"]
    env.clear_caches()
    root = core.parse(src)
    in_fstring = {id(n) for j in ast.walk(root) if isinstance(j, ast.JoinedStr) for n in ast.walk(j)}
    kinds = (ast.Name, ast.Call, ast.BinOp, ast.Attribute, ast.Subscript, ast.List, ast.Compare, ast.BoolOp, ast.UnaryOp, ast.Dict, ast.Set, ast.IfExp)
    nodes = [n for n in ast.walk(root) if isinstance(n, kinds) and id(n) not in in_fstring and isinstance(getattr(n, "ctx", ast.Load()), ast.Load)]
    nodes.sort(key=lambda n: (n.lineno, n.col_offset, n.end_lineno, n.end_col_offset, type(n).__name__))
    if not nodes:
        return [], None
    old = nodes[case["node"] % len(nodes)]
    label, text, atom = EXPR_POOL[case["new"] % len(EXPR_POOL)]
    new = ast.parse(text, mode="eval").body
    if label == "starred":
        new = new.value.elts[0]  # a bare Starred node: fits only inside calls and displays
    status, out, _ = progcheck.run_tool(processing.alter_code, src, root, replacements={old: new})
    detail = f"replace {ast.unparse(old)!r} (line {old.lineno}) by {label} {ast.unparse(new)!r}\n--- input\n{src[:900]}\n--- output\n{str(out)[:900]}"
    if status == "crash" and isinstance(out, SyntaxError):
        return [{"bucket": "alter_code:expr:unparsable-intermediate", "case": case, "detail": detail}], None
    if status != "ok" or not isinstance(out, str):
        return [], None
    if not parses(out):
        return [{"bucket": "alter_code:expr:invalid-output", "case": case, "detail": detail}], out
    if atom and out != src:
        import copy
        want = copy.deepcopy(root)
        pos = (old.lineno, old.col_offset, old.end_lineno, old.end_col_offset, type(old))
        done = []

        class Sub(ast.NodeTransformer):
            def generic_visit(self, node):
                if not done and hasattr(node, "lineno") and (node.lineno, node.col_offset, node.end_lineno, node.end_col_offset, type(node)) == pos:
                    done.append(1)
                    return copy.deepcopy(new)
                return super().generic_visit(node)

        want = Sub().visit(want)
        try:
            same = ast.dump(ast.parse(out)) == ast.dump(ast.parse(ast.unparse(want)))
        except (SyntaxError, ValueError):
            same = True
        if not same:
            return [{"bucket": "alter_code:expr:other-code-changed", "case": case, "detail": detail}], out
    return [], out


def short_statement_removed(case):
    return case.get("kind") == "alter" and bool(case.get("allow_short"))


PREDICATES = {"short_statement_removed": short_statement_removed}


def evaluate(case):
    k = case.get("kind", "format")
    if k == "synthetic":
        return check_synthetic(case)[0]
    if k == "alter":
        return check_alter(case)[0]
    if k == "alter_expr":
        return check_alter_expr(case)[0]
    if k == "format":
        return check_format(case)[0]
    if k == "rule":
        return check_rule(case)[0]
    if k == "sub":
        return check_sub(case)[0]
    return check_file(case)


def all_rules():
    return [list(r) for r in list(trace.registry()) + [r for r in trace.extra_rules() if r[1] not in ("get_undefined_variables", "create_abstractions")]]


def plan(tier, seed):
    nsh = 16
    q = tier == "quick"
    specs = []
    for s in range(nsh):
        specs.append({"kind": "generated", "n": (1600 if q else 30000) // nsh, "seed": env.subseed(seed, ID, "gen", s), "budget_s": 90 if q else 1500})
        specs.append({"kind": "corpus", "shard": s, "nshards": nsh, "stride": 3 if q else 1, "offset": seed % 3, "real": 4 if q else 45,
                      "budget_s": 80 if q else 1500})
        specs.append({"kind": "synthetic", "n": (6000 if q else 100000) // nsh, "seed": env.subseed(seed, ID, "syn", s), "budget_s": 45 if q else 600})
        specs.append({"kind": "files", "n": (160 if q else 3000) // nsh, "seed": env.subseed(seed, ID, "file", s), "budget_s": 60 if q else 600})
    return specs


def run_shard(spec):
    acc = Acc()
    t0 = time.time()
    rules = all_rules()

    def record(case, fails, out, classes):
        changed = out is not None and out != case["src"]
        acc.case(case, changed, classes + (["changed"] if changed else ["unchanged-or-failed"]),
                 sample={k: (v[:300] if isinstance(v, str) else v) for k, v in case.items()})
        acc.fails(fails)

    if spec["kind"] == "synthetic":
        from vf.checks import c10
        alter_pool = [z for z in texts.ZOO if strictly_parses(z) and z.strip()] + [x for x in corpus.ascii_examples()[::7] if len(x) < 1500]

        def go_syn(data):
            if data.draw(st.booleans()):
                case = {"kind": "synthetic", "c10": data.draw(c10.rewrite_sets())}
                fails, out = check_synthetic(case)
                acc.case(case, True, ["synthetic:" + ("invalid-replacement" if any(r["n"] == "invalid" for r in case["c10"]["rewrites"]) else "valid-only")])
                acc.fails(fails)
            elif data.draw(st.booleans()):
                src = data.draw(st.sampled_from(alter_pool))
                case = {"kind": "alter_expr", "src": src, "node": data.draw(st.integers(0, 400)), "new": data.draw(st.integers(0, len(EXPR_POOL) - 1))}
                fails, out = check_alter_expr(case)
                cls = "rolled-back-or-none" if out is None or out == src else "applied"
                acc.case(case, out is not None, [f"alter_expr:{EXPR_POOL[case['new']][0]}:{cls}"], sample={"src": src[:200], "node": case["node"], "new": EXPR_POOL[case["new"]][1]})
                acc.fails(fails)
            else:
                src = data.draw(st.sampled_from(alter_pool))
                idx = st.lists(st.integers(0, 14), max_size=4, unique=True)
                case = {"kind": "alter", "src": src, "remove": data.draw(idx), "replace": data.draw(idx), "add": data.draw(st.lists(st.integers(0, 14), max_size=2, unique=True))}
                fails, out = check_alter(case)
                if out == "excluded:F-C03-01":
                    acc.excluded["F-C03-01"] += 1
                    return
                acc.case(case, out is not None, ["alter_code"], sample={"src": src[:200], "remove": case["remove"], "replace": case["replace"], "add": case["add"]})
                acc.fails(fails)

        hyp.run(st.data(), go_syn, spec["n"], spec["seed"], spec["budget_s"], acc, chunk=200)
        return acc

    if spec["kind"] == "files":
        pool = list(texts.ZOO) + corpus.repo_examples()[::11]

        def go_file(data):
            kind = data.draw(st.sampled_from(["real", "real", "stub"]))
            src = data.draw(st.sampled_from(pool)) if data.draw(st.booleans()) else data.draw(families.family_program())[1]
            if kind == "stub" or data.draw(st.integers(0, 5)) == 0:
                if data.draw(st.booleans()):
                    src = data.draw(texts.invalid_source(pool))
            case = {"kind": "file", "src": src, "stub": data.draw(st.sampled_from(["invalid", "identical", "valid"])) if kind == "stub" else None,
                    "safe": data.draw(st.booleans()), "name": data.draw(st.sampled_from(["mod.py", "mod.py", "__init__.py"]))}
            fails = check_file(case)
            cell = f"file:{case['stub'] or 'real'}:{'valid' if strictly_parses(src) else 'invalid'}"
            acc.case(case, True, [cell], sample={"src": src[:200], "stub": case["stub"]})
            acc.fails(fails)

        hyp.run(st.data(), go_file, spec["n"], spec["seed"], spec["budget_s"], acc, chunk=10)
        return acc

    if spec["kind"] == "corpus":
        default = {"safe": False, "keep_imports": False, "preserve": [], "max_line_length": 100}
        pool = list(corpus.repo_examples())
        for z in texts.ZOO:
            pool.append(z)
            pool.extend(m for _, m in texts.placement_metamorphs(z))
        idx = -1
        for src in pool:
            if not parses(src):
                continue
            idx += 1
            if idx % spec["nshards"] != spec["shard"] or (idx // spec["nshards"]) % spec["stride"] != spec["offset"] % spec["stride"]:
                continue
            case = {"kind": "format", "src": src, "opts": default if idx % 2 else dict(default, safe=True)}
            fails, out = check_format(case)
            record(case, fails, out, ["corpus:format"])
            for rule in rules:
                c2 = {"kind": "rule", "src": src, "rule": rule, "preserve": []}
                f2, o2 = check_rule(c2)
                if o2 is not None and o2 != src:
                    record(c2, f2, o2, ["corpus:rule"])
                else:
                    acc.evaluations += 1
            if time.time() - t0 > spec["budget_s"]:
                acc.budget_exhausted = True
                break
        for i, (name, src) in enumerate(corpus.realworld()[: spec["real"]]):
            if i % spec["nshards"] == spec["shard"]:
                case = {"kind": "format", "src": src, "opts": default}
                fails, out = check_format(case)
                record(case, fails, out, ["realworld:format"])
        return acc

    sub_sources = [s for s in corpus.ascii_examples() if len(s) < 2000]

    def go(data):
        kind = data.draw(st.sampled_from(["format", "format", "rules", "sub", "sub", "literal"]))
        if kind == "sub":
            source = data.draw(st.sampled_from(sub_sources))
            with warnings.catch_warnings():
                warnings.simplefilter("ignore")
                tree = ast.parse(source)
            d1 = data.draw(patterns.derived(source, tree, allow_near=False))
            d2 = data.draw(patterns.derived(source, tree, max_wild=0, allow_quant=False, allow_near=False))
            if d1 is None or d2 is None:
                return
            names = sorted(set(__import__("re").findall(r"\{\{(\w+)\}\}", d1["pattern"])))
            repl = data.draw(st.sampled_from(["marker({})", "{}", "({}, {})", "not {}", "[{} for _ in range(2)]", "pass", "marker = {}\nother = 1", d2["pattern"]]))
            if "{}" in repl:
                fill = ["{{" + data.draw(st.sampled_from(names)) + "}}" if names else "0" for _ in range(repl.count("{}"))]
                repl = repl.format(*fill)
            case = {"kind": "sub", "src": source, "pattern": d1["pattern"], "repl": repl, "count": data.draw(st.sampled_from([0, 0, 1, 2]))}
            fails, out = check_sub(case)
            record(case, fails, out, ["sub"])
            return
        if kind == "literal":
            src = data.draw(texts.literal_source())
        else:
            label, src = data.draw(families.family_program()) if data.draw(st.integers(0, 2)) else ("grammar", data.draw(programs.programs()))
            if data.draw(st.integers(0, 6)) == 0:
                src = textwrap.indent(src, "    ")
        if not parses(src):
            return
        if kind == "rules":
            for rule in rules:
                c2 = {"kind": "rule", "src": src, "rule": rule, "preserve": []}
                f2, o2 = check_rule(c2)
                if o2 is not None and o2 != src:
                    record(c2, f2, o2, ["generated:rule"])
                else:
                    acc.evaluations += 1
            return
        case = {"kind": "format", "src": src, "opts": data.draw(options())}
        fails, out = check_format(case)
        record(case, fails, out, ["generated:format"])

    hyp.run(st.data(), go, spec["n"], spec["seed"], spec["budget_s"], acc, chunk=40)
    return acc


def shrink(failure):
    case = failure["case"]
    if case.get("kind", "format") not in ("format", "rule"):
        return None
    bucket = failure["bucket"]

    def still(c):
        return any(f["bucket"] == bucket for f in evaluate(c))

    best = progcheck.shrink_program(case, still, budget=120)
    fs = [f for f in evaluate(best) if f["bucket"] == bucket]
    return {"case": best, "detail": fs[0]["detail"] if fs else failure.get("detail", "")}
