"""C11 - layout stages never change program structure or string contents."""
from __future__ import annotations

import ast
import re
import textwrap
import warnings

from hypothesis import strategies as st

from vf import env, hyp, progcheck
from vf.acc import Acc
from vf.gen import corpus, texts

ID = "C11"
LEVEL = "exploration"
RULE = (
    "inputs: literal-heavy sources (single / triple quoted, raw, bytes, f-strings containing tabs, trailing blanks, runs of blank lines, '#', "
    "quotes, backslashes, over-long lines, legacy u prefix, non-ASCII), odd indentation (tabs, 2/8 spaces), import blocks with interleaved "
    "literals and comments, the syntax zoo and repository examples; stages: the pre-normalisation prefix of format_code (expandtabs, "
    "rmspace.format_str, fix_too_many_blank_lines), fix_line_lengths at 60/79/100/120, fix_import_spacing, "
    "minimize_whitespace_line_differences on (text, whitespace-perturbed text) pairs, _substitute_original_strings/_fstrings on (original, "
    "re-quoted) pairs, and format_code on rule-free inputs (print(<literal>) statements with pairwise different literals). Oracle: "
    "ast.dump(parse(stage(s))) == ast.dump(parse(s)) ignoring positions and Constant.kind, docstrings compared modulo whitespace; explicitly "
    "the multiset of str/bytes constant values and f-string constant parts outside docstrings is unchanged. Non-trivial = the input has a "
    "literal with a tab, trailing blank, run of >=3 newlines or an over-long line, or the stage changed the text; distinct by (stage, input)."
)
ASSUMPTIONS = [
    "whitespace inside docstrings may be normalised (black does so by design)",
    "'del (a, b)' forms are not generated for the black stage (black documents removing those parentheses)",
]
EXHAUSTIVE = {"quick": False, "thorough": False}


class _Norm(ast.NodeTransformer):
    def generic_visit(self, node):
        super().generic_visit(node)
        for attr in ("lineno", "col_offset", "end_lineno", "end_col_offset"):
            if hasattr(node, attr):
                delattr(node, attr)
        return node

    def visit_Constant(self, node):
        node.kind = None
        return self.generic_visit(node)


def _mark_docstrings(tree):
    for node in ast.walk(tree):
        if isinstance(node, (ast.Module, ast.ClassDef, ast.FunctionDef, ast.AsyncFunctionDef)) and node.body:
            first = node.body[0]
            if isinstance(first, ast.Expr) and isinstance(first.value, ast.Constant) and isinstance(first.value.value, str):
                first.value.value = "DOC:" + re.sub(r"\s+", "", first.value.value)
    return tree


def norm_dump(src):
    with warnings.catch_warnings():
        warnings.simplefilter("ignore")
        tree = ast.parse(src)
    return ast.dump(_Norm().visit(_mark_docstrings(tree)))


def literal_multiset(src):
    with warnings.catch_warnings():
        warnings.simplefilter("ignore")
        tree = _mark_docstrings(ast.parse(src))
    out = []
    for n in ast.walk(tree):
        if isinstance(n, ast.Constant) and isinstance(n.value, (str, bytes)) and not (isinstance(n.value, str) and n.value.startswith("DOC:")):
            out.append(repr(n.value))
    return sorted(out)


def parses(src):
    with warnings.catch_warnings():
        warnings.simplefilter("ignore")
        try:
            ast.parse(src)
            return True
        except (SyntaxError, ValueError):
            return False


def stage_fn(name, arg):
    main = env.mod("main")
    fixes = env.mod("fixes")
    processing = env.mod("processing")
    import rmspace
    if name == "prefix":
        def f(s):
            s = s.expandtabs(4)
            s = rmspace.format_str(s)
            return fixes.fix_too_many_blank_lines(s)
        return f
    if name == "line_lengths":
        return lambda s: fixes.fix_line_lengths(s, max_line_length=arg)
    if name == "import_spacing":
        return fixes.fix_import_spacing
    if name == "sort_imports":
        return fixes.sort_imports
    if name == "rmspace":
        return rmspace.format_str
    if name == "blank_lines":
        return fixes.fix_too_many_blank_lines
    if name == "format_code":
        return lambda s: main.format_code(s, max_line_length=arg or 100)
    raise ValueError(name)


def evaluate(case, info=None):
    src = case["src"]
    fails = []
    if not parses(src):
        return []
    env.clear_caches()
    if case["stage"] == "minimize":
        processing = env.mod("processing")
        other = case["other"]
        if not parses(other) or norm_dump(other) != norm_dump(src):
            return []
        status, res, _ = progcheck.run_tool(processing.minimize_whitespace_line_differences, src, other)
        out = res[0] if status == "ok" else None
        reference = other  # the result must keep the structure of the NEW text
    elif case["stage"] == "wrap_minimize":
        # what format_code does last: the text is re-wrapped (here by black itself, which keeps the tree by its own
        # guarantee) and the result is merged with the original by minimize_whitespace_line_differences
        processing = env.mod("processing")
        try:
            import black
            other = black.format_str(src, mode=black.Mode(line_length=case.get("arg") or 100))
        except Exception:
            return []
        if not parses(other) or norm_dump(other) != norm_dump(src) or literal_multiset(other) != literal_multiset(src):
            return []
        status, res, _ = progcheck.run_tool(processing.minimize_whitespace_line_differences, src, other)
        out = res[0] if status == "ok" else None
        reference = other
    elif case["stage"] == "substitute_strings":
        processing = env.mod("processing")
        other = case["other"]
        if not parses(other):
            return []

        def f(a, b):
            return processing._substitute_original_fstrings(a, processing._substitute_original_strings(a, b))

        status, out, _ = progcheck.run_tool(f, src, other)
        reference = other
    else:
        status, out, _ = progcheck.run_tool(stage_fn(case["stage"], case.get("arg")), src)
        reference = src
    if status != "ok" or not isinstance(out, str):
        return []
    if info is not None:
        info["changed"] = out != reference
    if not parses(out):
        fails.append({"bucket": f"{case['stage']}:invalid-output", "case": case, "detail": f"--- input\n{src!r}\n--- output\n{out!r}"})
        return fails
    if literal_multiset(out) != literal_multiset(reference):
        a, b = literal_multiset(reference), literal_multiset(out)
        diff = [x for x in a if x not in b][:3], [x for x in b if x not in a][:3]
        fails.append({"bucket": f"{case['stage']}:literal-value-changed", "case": case, "detail": f"lost {diff[0]} gained {diff[1]}\n--- input\n{reference!r}\n--- output\n{out!r}"})
    elif norm_dump(out) != norm_dump(reference):
        fails.append({"bucket": f"{case['stage']}:tree-changed", "case": case, "detail": f"--- input\n{reference!r}\n--- output\n{out!r}"})
    return fails


def string_tokens(src):
    import io
    import tokenize
    out = []
    try:
        for tok in tokenize.generate_tokens(io.StringIO(src).readline):
            if tok.type == tokenize.STRING or tok.type in (getattr(tokenize, "FSTRING_MIDDLE", -1),):
                out.append(tok.string)
    except (tokenize.TokenError, SyntaxError, IndentationError):
        pass
    return out


def tab_in_literal(case):
    """F-C11-01: a literal contains a raw tab character (expandtabs is applied to the whole text)."""
    return any("\t" in t for t in string_tokens(case["src"]))


def trailing_blank_in_literal(case):
    """F-C11-02: a multi-line literal has a line that ends in blanks (rmspace strips them)."""
    return any(re.search(r"[ \t]\n", t) for t in string_tokens(case["src"]))


def blank_run_in_literal(case):
    """F-C11-03: a multi-line literal contains a run of three or more newlines (the blank-line regexes collapse it)."""
    return any("\n\n\n" in t for t in string_tokens(case["src"]))


def backslash_continued_literal(case):
    """F-C11-04: a single-quoted literal continued over a line with backslash-newline."""
    return any("\\\n" in t and not t.lstrip("rbfuRBFU").startswith(("\'\'\'", '\"\"\"')) for t in string_tokens(case["src"]))


PREDICATES = {"tab_in_literal": tab_in_literal, "trailing_blank_in_literal": trailing_blank_in_literal,
              "blank_run_in_literal": blank_run_in_literal, "backslash_continued_literal": backslash_continued_literal}
HAZARDS = [("F-C11-01", tab_in_literal), ("F-C11-02", trailing_blank_in_literal), ("F-C11-03", blank_run_in_literal)]


IMPORT_BLOCKS = [
    "import os\nimport sys\nfrom math import floor\nx = 'lit\\t'  # c\nimport re\nprint(os, sys, floor, re, x)\n",
    "'''doc'''\nfrom __future__ import annotations\nimport b\nimport a\n\n\n\nfrom c import d\ns = '''multi\n\n\n\nline'''\nprint(a, b, d, s)\n",
    "import os\n# comment between\nimport sys\nif True:\n    import json\ntext = \"a  \"\nprint(os, sys, json, text)\n",
    "import z\nimport y  # trailing\nfrom x import (\n    w,\n    v,\n)\nprint(z, y, w, v, '''t\n  \n''')\n",
]


def interesting(src):
    return bool(re.search(r"\t|[ \t]\n|\n\n\n\n", src)) or any(len(l) > 100 for l in src.split("\n"))


def perturb(draw, src):
    """Whitespace-only perturbation of code outside literals: blank lines added/removed, trailing blanks."""
    lines = src.split("\n")
    out = []
    in_triple = False
    for l in lines:
        if l.count("'''") % 2 or l.count('"""') % 2:
            in_triple = not in_triple
            out.append(l)
            continue
        if in_triple:
            out.append(l)
            continue
        k = draw(st.integers(0, 6))
        if k == 0:
            out.append("")
        if k == 1 and l.strip() and not l.rstrip().endswith("\\"):
            l = l + "   "
        if k == 2 and not l.strip():
            continue
        out.append(l)
    return "\n".join(out)


TWIN_STRINGS = ['"""Dear customer,\n\nyour order has shipped.\n"""', '"""Dear customer,\nyour order has shipped.\n"""', '"""\n\n"""', '"""\n"""',
                '"""end of part one\n\n"""', '"""end of part one\n"""', "'''a\n\nb\n'''", "'''a\nb\n'''", '"""x\n\n\ny"""', '"""\n\n\n"""',
                '"""end of part two\n\n\n"""', '"""one line"""']
TWIN_FORMS = ["send(customer,{s})", "show(0,   {s})", "show({s},0)", "show([{s},0])", "show( {s} , {s2} )",
              "send(customer, {s}, 'and a long trailing argument that pushes the line over the limit of sixty characters')",
              "if customer:\n    send(customer,{s})"]


@st.composite
def twin_source(draw):
    """Neighbouring statements with the same code around multi-line strings that differ only in their empty lines."""
    form = draw(st.sampled_from(TWIN_FORMS))
    lines = []
    for _ in range(draw(st.integers(2, 4))):
        if draw(st.integers(0, 3)) == 0:
            form = draw(st.sampled_from(TWIN_FORMS))
        lines.append(form.replace("{s2}", draw(st.sampled_from(TWIN_STRINGS))).replace("{s}", draw(st.sampled_from(TWIN_STRINGS))))
    return "\n".join(lines) + "\n"


def plan(tier, seed):
    nsh = 16
    q = tier == "quick"
    return [{"kind": "gen", "n": (40000 if q else 400000) // nsh, "seed": env.subseed(seed, ID, "gen", s), "budget_s": 75 if q else 900} for s in range(nsh)]


def run_shard(spec):
    acc = Acc()
    pool = [z for z in texts.ZOO if z.strip()] + corpus.repo_examples()[::5] + IMPORT_BLOCKS * 5

    def go(data):
        kind = data.draw(st.sampled_from(["literal", "literal", "literal", "pool", "rulefree", "twins"]))
        if kind == "literal":
            src = data.draw(texts.literal_source())
        elif kind == "twins":
            src = data.draw(twin_source())
        elif kind == "pool":
            src = data.draw(st.sampled_from(pool))
        else:
            lits = data.draw(st.lists(st.sampled_from(texts.LITERAL_PIECES), min_size=1, max_size=4, unique=True))
            src = "".join(f"print({l})\n" for l in lits)
        stage = data.draw(st.sampled_from(["prefix", "prefix", "line_lengths", "line_lengths", "import_spacing", "import_spacing", "rmspace", "blank_lines",
                                           "minimize", "substitute_strings", "format_code" if kind == "rulefree" else "prefix"]))
        if kind == "twins":
            stage = data.draw(st.sampled_from(["line_lengths", "wrap_minimize", "wrap_minimize", "format_code"]))
        case = {"stage": stage, "src": src}
        if stage in ("line_lengths", "format_code", "wrap_minimize"):
            case["arg"] = data.draw(st.sampled_from([60, 79, 100, 120]))
        if stage == "minimize":
            case["other"] = perturb(data.draw, src)
        if stage == "substitute_strings":
            try:
                with warnings.catch_warnings():
                    warnings.simplefilter("ignore")
                    case["other"] = ast.unparse(ast.parse(src)) + "\n"
            except (SyntaxError, ValueError):
                return
        hit = [fid for fid, pred in HAZARDS if pred(case) and not (stage == "wrap_minimize" and fid == "F-C11-03")]
        if hit:
            # known findings: literals with raw tabs / trailing blanks / blank-line runs / backslash continuation are
            # changed by the text-level stages; such inputs are excluded (counted) so that the search goes on
            for fid in hit:
                acc.excluded[fid] += 1
            return
        info = {}
        fails = evaluate(case, info)
        acc.case(case, interesting(src) or bool(info.get("changed")), [f"stage:{stage}", "changed" if info.get("changed") else "unchanged"],
                 sample={"stage": stage, "src": src[:200]})
        acc.fails(fails)

    hyp.run(st.data(), go, spec["n"], spec["seed"], spec["budget_s"], acc, chunk=100)
    return acc
