"""C13 - match objects and the re-like API are geometrically coherent."""
from __future__ import annotations

import ast
import contextlib
import io
import os
import re
import shutil
import tempfile
import textwrap
import warnings

from hypothesis import strategies as st

from vf import env, hyp, progcheck
from vf.acc import Acc
from vf.gen import corpus, patterns

ID = "C13"
LEVEL = "exploration"
RULE = (
    "(pattern, source) pairs with >=1 match by construction: patterns derived from a node (or statement window) of the source; sources = "
    "repository examples and a hand-written geometry zoo (multi-line nodes, decorated definitions, parenthesised / indented code) put "
    "through drawn geometry transformations: multi-byte characters before the match on its line or on earlier lines, missing trailing "
    "newline, CRLF / lone CR line ends, form feed and U+2028/U+0085/U+001C inside string literals and comments. Oracle per Match: span "
    "inside the source, m.string == source[start:end], the slice equals the reference node text (computed from ast byte offsets with "
    "Python's own line terminators, from the first decorator for decorated definitions, first-to-last node for sequences), (lineno, "
    "col_offset) = position of start; findall == strings of finditer in order, search == first finditer result, match / fullmatch succeed "
    "iff a finditer match starts at the first statement / spans the module body, and the `find` CLI prints exactly file:line:col: first-line. "
    "Non-trivial = a match that does not start at offset 0; distinct by (pattern, source); histogram by geometry feature."
)
ASSUMPTIONS = ["Python's line terminators are \\n, \\r\\n and \\r; column offsets of the ast are UTF-8 byte offsets"]
EXHAUSTIVE = {"quick": False, "thorough": False}

GEOMETRY_ZOO = [
    "@decorator\n@other(1)\ndef target(a, b):\n    return a + b\n\nclass K:\n    @staticmethod\n    def m(v):\n        return v\n",
    "result = compute(\n    first,\n    second=[1,\n            2],\n)\nother = (a +\n         b)\n",
    "if flag:\n    for item in items:\n        total = total + item.value * 2\n    print(total)\nelse:\n    print('none')\n",
    "x = f(1); y = g(x, 2); print(x, y)\nvalues = [f(i) for i in range(3) if i]\n",
    "def outer():\n    def inner(v):\n        return (v,\n                v + 1)\n    return inner(2)\nprint(outer())\n",
    "text = 'h\u00e9llo w\u00f6rld'; value = len(text) + offset\nprint(text, value)\n",
    "s = '\u4e2d\u6587'; t = call(s, '\U0001F600')  # \u00fc comment\nu = call(t, s)\n",
    "class A:\n    attr = 1\n\n    def method(self, arg):\n        '''Doc \u00e9.'''\n        return self.attr + arg\n",
    "while cond(x):\n    x = step(x)\nelse:\n    done(x)\n",
    "try:\n    value = risky(1)\nexcept ValueError as err:\n    handle(err)\nfinally:\n    cleanup()\n",
    "a = {'k': [1, 2, (3, 4)], 'j': {5, 6}}\nb = a['k'][2][0] + a.get('z', 0)\n",
    "lam = lambda q, r=2: q * r\nprint(lam(3), lam(r=1, q=2))\n",
    "@ spaced\n@(paren)\n@  other . attr (1)\ndef target(a):\n    return a\n\nclass K:\n    @ staticmethod\n    def m(v):\n        return v @ v\n",
    "x.a.b = 1\nx = 3\nprint(x)\n",
    "value[0].attr(value).other = value\nvalue\nprint(value)\n",
    "call(call(call(arg)))\ncall(arg)\narg\n",
    "def target(a):\n    return a @b  # ends with @",
    "def first(a): return a\n@first\nclass Deco: pass  # @",
]
FEATURES = ["plain", "multibyte-same-line", "multibyte-earlier-line", "no-trailing-newline", "crlf", "cr", "formfeed-in-literal", "u2028-in-literal",
            "x85-in-comment", "x1c-in-literal", "indented", "formfeed-between"]


def transform(draw, src):
    feats = []
    for _ in range(draw(st.integers(0, 2))):
        f = draw(st.sampled_from(FEATURES[1:]))
        if f in feats:
            continue
        lines = src.split("\n")
        k = draw(st.integers(0, max(0, len(lines) - 1)))
        if f == "multibyte-same-line":
            # a string statement before code on the same line is only possible at statement start: use 'lit'; code
            cand = [i for i, l in enumerate(lines) if l and not l.startswith((" ", "\t", "@", ")", "]", "}", "#", "'", '"')) and not l.rstrip().endswith((":", "\\", ",", "(", "["))
                    and re.match(r"[A-Za-z_]", l)]
            if not cand:
                continue
            i = draw(st.sampled_from(cand))
            new = lines[:i] + ["'\u00e9\u4e2d\U0001F600'; " + lines[i]] + lines[i + 1:]
        elif f == "multibyte-earlier-line":
            new = lines[:k] + ["# \u00fcml\u00e4ut \u4e2d\u6587 comment", "unused_text = '\u00e9\u00e8'"] + lines[k:] if not lines[k].startswith((" ", "\t")) else None
        elif f == "no-trailing-newline":
            new = "\n".join(lines).rstrip("\n").split("\n")
        elif f == "crlf":
            feats.append(f)
            src = src.replace("\r\n", "\n").replace("\n", "\r\n")
            continue
        elif f == "cr":
            if "'''" in src or '"""' in src:
                continue
            feats.append(f)
            src = src.replace("\r\n", "\n").replace("\n", "\r")
            continue
        elif f in ("formfeed-in-literal", "u2028-in-literal", "x1c-in-literal"):
            ch = {"formfeed-in-literal": "\x0c", "u2028-in-literal": "\u2028", "x1c-in-literal": "\x1c"}[f]
            new = lines[:k] + [f"sep_literal = 'a{ch}b'"] + lines[k:] if not lines[k].startswith((" ", "\t")) else None
        elif f == "x85-in-comment":
            new = lines[:k] + ["# next\x85line in a comment"] + lines[k:] if not lines[k].startswith((" ", "\t")) else None
        elif f == "formfeed-between":
            new = lines[:k] + ["\x0c"] + lines[k:] if not lines[k].startswith((" ", "\t")) and k > 0 else None
        elif f == "indented":
            new = ["if outer_flag:"] + ["    " + l if l.strip() else l for l in lines]
        else:
            new = None
        if new is None:
            continue
        cand_src = "\n".join(new)
        if parses(cand_src):
            src = cand_src
            feats.append(f)
    return src, feats or ["plain"]


def parses(src):
    with warnings.catch_warnings():
        warnings.simplefilter("ignore")
        try:
            ast.parse(src)
            return True
        except (SyntaxError, ValueError):
            return False


def py_lines(source):
    """Lines as Python's tokenizer sees them (\\n, \\r\\n, \\r)."""
    return io.StringIO(source, newline="").readlines() or [""]


def char_offset(lines, starts, lineno, col_bytes):
    line = lines[lineno - 1] if lineno - 1 < len(lines) else ""
    col = len(line.encode("utf-8")[:col_bytes].decode("utf-8", errors="ignore"))
    return starts[lineno - 1] + col if lineno - 1 < len(starts) else sum(len(l) for l in lines)


def ref_span(source, nodes):
    lines = py_lines(source)
    starts = [0]
    for l in lines:
        starts.append(starts[-1] + len(l))
    first, last = nodes[0], nodes[-1]
    decs = getattr(first, "decorator_list", None)
    if decs:
        d = min(decs, key=lambda x: (x.lineno, x.col_offset))
        # the '@' of the first decorator: blanks (and an opening parenthesis) may sit between it and the expression
        s = source.rfind("@", 0, char_offset(lines, starts, d.lineno, d.col_offset))
    else:
        s = char_offset(lines, starts, first.lineno, first.col_offset)
    e = char_offset(lines, starts, last.end_lineno, last.end_col_offset)
    return s, e


def line_col(source, offset):
    lines = py_lines(source)
    pos = 0
    for i, l in enumerate(lines, start=1):
        if offset < pos + len(l) or i == len(lines):
            return i, offset - pos
        pos += len(l)
    return len(lines), offset - pos


def node_for_root(tree, root):
    key = (type(root).__name__, getattr(root, "lineno", None), getattr(root, "col_offset", None), getattr(root, "end_lineno", None), getattr(root, "end_col_offset", None))
    for n in ast.walk(tree):
        if (type(n).__name__, getattr(n, "lineno", None), getattr(n, "col_offset", None), getattr(n, "end_lineno", None), getattr(n, "end_col_offset", None)) == key:
            return n
    return None


def evaluate(case, info=None):
    pm = env.mod("pattern_matching")
    source, pattern = case["source"], case["pattern"]
    fails = []

    def fail(bucket, detail):
        fails.append({"bucket": bucket, "case": case, "detail": f"pattern {pattern!r}\n{detail}\n--- source\n{source[:900]!r}"})

    with warnings.catch_warnings():
        warnings.simplefilter("ignore")
        try:
            tree = ast.parse(source)
        except SyntaxError:
            return []
        env.clear_caches()
        try:
            matches = list(pm.finditer(pattern, source))
        except (SyntaxError, ValueError, AssertionError):
            return []  # the API rejected the pattern (an artefact of deriving patterns from slices etc.)
        except Exception as exc:
            fail("exception:" + env.exc_bucket(exc), repr(exc))
            return fails
    if info is not None:
        info["n"] = len(matches)
        info["nonzero"] = any(m.start > 0 for m in matches)
    inside_fstring = {id(n) for j in ast.walk(tree) if isinstance(j, ast.JoinedStr) for n in ast.walk(j) if n is not j}
    is_seq = isinstance(__import__("vf.ref.matcher", fromlist=["Pattern"]).Pattern(pattern).root, list)
    for m in matches:
        if not (0 <= m.start <= m.end <= len(source)):
            fail("span-outside-source", f"span {tuple(m.span)} len {len(source)}")
            continue
        if m.string != source[m.start:m.end]:
            fail("string-is-not-the-slice", f"{m.string!r} vs {source[m.start:m.end]!r}")
        if not is_seq:
            node = node_for_root(tree, m.root)
            if node is None or id(node) in inside_fstring:
                continue  # constant parts of f-strings have no source text of their own (no quotes): outside the domain
            want = ref_span(source, [node])
            if tuple(m.span) != want:
                fail("span-is-not-the-node-text", f"reported {tuple(m.span)} = {source[m.start:m.end]!r}\nreference {want} = {source[want[0]:want[1]]!r}")
                continue
        ln, col = line_col(source, m.start)
        if (m.lineno, m.col_offset) != (ln, col):
            fail("lineno-col-wrong", f"reported line {m.lineno} col {m.col_offset}, start {m.start} is line {ln} col {col}")
    # API coherence
    try:
        with warnings.catch_warnings():
            warnings.simplefilter("ignore")
            fa = pm.findall(pattern, source)
            se = pm.search(pattern, source)
            ma = pm.match(pattern, source)
            fu = pm.fullmatch(pattern, source)
    except Exception as exc:
        fail("exception:" + env.exc_bucket(exc), repr(exc))
        return fails
    if fa != [m.string for m in matches]:
        fail("findall-differs-from-finditer", f"{fa!r} vs {[m.string for m in matches]!r}")
    if (se is None) != (not matches) or (se is not None and tuple(se.span) != tuple(matches[0].span)):
        fail("search-is-not-first-finditer", f"{se and tuple(se.span)} vs {matches and tuple(matches[0].span)}")
    if tree.body:
        body_span = ref_span(source, [tree.body[0], tree.body[-1]]) if len(tree.body) > 1 else ref_span(source, [tree.body[0]])
        first_start = ref_span(source, [tree.body[0]])[0]
        spans = [tuple(m.span) for m in matches]
        want_match = any(s[0] == first_start for s in spans)
        want_full = any(s == body_span for s in spans)
        if (ma is not None) != want_match:
            fail("match-incoherent", f"match() -> {ma and tuple(ma.span)}; finditer spans {spans}; first statement starts at {first_start}")
        if (fu is not None) != want_full:
            fail("fullmatch-incoherent", f"fullmatch() -> {fu and tuple(fu.span)}; finditer spans {spans}; module body spans {body_span}")
    if case.get("cli") and "\r" not in source and not pattern.startswith("-"):
        d = tempfile.mkdtemp(prefix="vf_c13_")
        try:
            path = os.path.join(d, "mod.py")
            with open(path, "w", encoding="utf-8", newline="") as fh:
                fh.write(source)
            buf = io.StringIO()
            try:
                with contextlib.redirect_stdout(buf):
                    pm.main(["find", pattern, path])
            except BaseException as exc:
                fail("cli-exception:" + env.exc_bucket(exc), repr(exc))
            else:
                want_lines = [f"{path}:{m.lineno}:{m.col_offset}: {m.string.splitlines()[0] if m.string.splitlines() else ''}" for m in matches]
                got = buf.getvalue().split("\n")[:-1] if buf.getvalue() else []
                # the CLI prints through print(): compare joined text so that odd separators inside a line do not matter
                if "\n".join(got) != "\n".join(want_lines):
                    fail("cli-output-differs", f"{got!r} vs {want_lines!r}")
        finally:
            shutil.rmtree(d, ignore_errors=True)
    return fails


def plan(tier, seed):
    nsh = 16
    q = tier == "quick"
    return [{"kind": "gen", "n": (24000 if q else 200000) // nsh, "seed": env.subseed(seed, ID, "gen", s), "budget_s": 75 if q else 900} for s in range(nsh)]


def run_shard(spec):
    acc = Acc()
    pool = [s for s in corpus.repo_examples() if len(s) < 1500] + GEOMETRY_ZOO * 20

    def go(data):
        base = data.draw(st.sampled_from(pool))
        source, feats = transform(data.draw, base)
        with warnings.catch_warnings():
            warnings.simplefilter("ignore")
            try:
                tree = ast.parse(source)
            except SyntaxError:
                return
        if data.draw(st.integers(0, 4)) == 0:
            d = data.draw(patterns.derived_sequence(source, tree))
        else:
            d = data.draw(patterns.derived(source, tree, allow_near=False, max_wild=2))
        if d is None:
            return
        case = {"source": source, "pattern": d["pattern"], "cli": data.draw(st.integers(0, 5)) == 0}
        info = {}
        fails = evaluate(case, info)
        acc.case(case, bool(info.get("nonzero")), ["feature:" + f for f in feats] + (["has-match"] if info.get("n") else ["no-match"]),
                 sample={"pattern": d["pattern"], "source": source[:250], "features": feats})
        acc.fails(fails)

    hyp.run(st.data(), go, spec["n"], spec["seed"], spec["budget_s"], acc, chunk=100)
    return acc
