"""C01 - the whole pipeline preserves program behaviour (execution oracle, culprit attribution by bisection)."""
from __future__ import annotations

import ast
import time

from hypothesis import HealthCheck, Phase, given, seed as hseed, settings, strategies as st

from vf import env, hyp, progcheck, known_shapes
from vf.acc import Acc
from vf.gen import families, programs

ID = "C01"
LEVEL = "exploration"
RULE = (
    "programs: (a) every rule family (31 parametric idiom families x drawn parameters x placements module/def/method/if/for/try/eof), "
    "compositions of 2-3 families, (b) Hypothesis programs from a typed closed grammar (assignments, if/elif/else, for over "
    "range/list/enumerate/zip/dict.items, bounded while, break/continue, defs with defaults and early returns, lambdas, comprehensions, "
    "try/except, classes with static/plain methods, unused definitions, imports, f-strings); each formatted under 2 (quick) / 4 (thorough) "
    "drawn option combinations of safe x keep_imports x preserve subset x line length. Oracle: fuel-bounded execution, identical stdout "
    "and normal termination. Non-trivial = the formatted AST differs from the input AST and the original printed something; distinct by "
    "(program, options)."
)
ASSUMPTIONS = [
    "programs are closed, deterministic, terminate within 2*10^5 trace events, print builtin-typed values only (sets through sorted())",
    "a crash or hang of the formatter is judged by C04, not here (counted as tool-crash / tool-hang)",
    "shapes that trigger recorded findings are excluded by construction (vf/known_shapes.py); the number of affected cases is reported",
]
EXHAUSTIVE = {"quick": False, "thorough": False}
PREDICATES = known_shapes.PREDICATES


def evaluate(case):
    return progcheck.pipeline_behaviour(case)[0]


@st.composite
def options(draw, src):
    try:
        tree = ast.parse(src)
        names = sorted({n.name for n in ast.walk(tree) if isinstance(n, (ast.FunctionDef, ast.ClassDef))} |
                       {n.id for n in ast.walk(tree) if isinstance(n, ast.Name) and isinstance(n.ctx, ast.Store)})
    except SyntaxError:
        names = []
    preserve = []
    if names and draw(st.integers(0, 2)) == 0:
        preserve = sorted(set(draw(st.lists(st.sampled_from(names), max_size=4))))
        if draw(st.booleans()):
            preserve.append("not_a_name_in_the_program")
    return {"safe": draw(st.booleans()), "keep_imports": draw(st.integers(0, 3)) == 0, "preserve": preserve,
            "max_line_length": draw(st.sampled_from([60, 79, 100, 100, 120]))}


def plan(tier, seed):
    nsh = 16
    specs = []
    nfam = 1300 if tier == "quick" else 24000
    ngram = 500 if tier == "quick" else 12000
    ncomp = 150 if tier == "quick" else 4000
    for s in range(nsh):
        specs.append({"kind": "families", "n": nfam // nsh, "shard": s, "nshards": nsh, "seed": env.subseed(seed, ID, "fam", s), "nopts": 2 if tier == "quick" else 4,
                      "budget_s": 80 if tier == "quick" else 1500})
        specs.append({"kind": "grammar", "n": ngram // nsh, "seed": env.subseed(seed, ID, "gram", s), "nopts": 2 if tier == "quick" else 4,
                      "budget_s": 80 if tier == "quick" else 1500})
        specs.append({"kind": "compose", "n": ncomp // nsh, "seed": env.subseed(seed, ID, "comp", s), "nopts": 1 if tier == "quick" else 2,
                      "budget_s": 60 if tier == "quick" else 900})
    return specs


def run_shard(spec):
    acc = Acc()
    t0 = time.time()
    fired_total = {}

    def one(src, opts, label):
        src2, excluded = known_shapes.neutralise(src)
        for fid in excluded:
            acc.excluded[fid] += 1
        case = {"src": src2, "opts": opts}
        fails, info = progcheck.pipeline_behaviour(case)
        for r, n in info.get("fired", {}).items():
            fired_total[r] = fired_total.get(r, 0) + n
        nontrivial = info.get("status") in ("same", "differs") and info.get("ast_changed", False)
        cell = f"cell:safe={int(opts['safe'])},keep={int(opts['keep_imports'])},len={opts['max_line_length']}"
        acc.case(case, nontrivial, [f"status:{info.get('status')}", f"src:{label}", cell, "preserve:nonempty" if opts["preserve"] else "preserve:empty"],
                 sample={"src": src2, "opts": opts})
        acc.fails(fails)

    if spec["kind"] == "families":
        strat = families.family_program()
    elif spec["kind"] == "grammar":
        strat = programs.programs().map(lambda s: ("grammar", s))
    else:
        strat = st.lists(families.family_program(names=known_shapes.COMPOSABLE), min_size=2, max_size=3).map(compose)

    def go(data):
        label, src = data.draw(strat)
        for _ in range(spec["nopts"]):
            one(src, data.draw(options(src)), label)

    if spec["kind"] == "families":
        # every family gets the same share of the budget (round-robin over shards), so no idiom depends on sampling luck
        names = sorted(families.FAMILIES)
        mine = names[spec["shard"]::spec["nshards"]]
        per = max(1, spec["n"] * spec["nshards"] // len(names))
        for j, name in enumerate(mine):
            strat = families.family_program(names=[name])
            hyp.run(st.data(), go, per, env.subseed(spec["seed"], name), spec["budget_s"], acc, chunk=per)
    else:
        hyp.run(st.data(), go, spec["n"], spec["seed"], spec["budget_s"], acc, chunk=40)
    acc.extra["rule_fire_counts"] = fired_total
    return acc


def compose(items):
    """Interleave family programs: run each one inside its own function so names cannot clash."""
    parts = []
    calls = []
    for idx, (name, src) in enumerate(items):
        body = src if src.endswith("\n") else src + "\n"
        parts.append(f"def part{idx}():\n" + "".join("    " + l if l.strip() else l for l in body.splitlines(keepends=True)))
        calls.append(f"part{idx}()\n")
    return "+".join(n for n, _ in items), "".join(parts) + "".join(calls)


def shrink(failure):
    bucket = failure["bucket"]
    case = failure["case"]

    def still(c):
        return any(f["bucket"] == bucket for f in progcheck.pipeline_behaviour(c)[0])

    best = progcheck.shrink_program(case, still, budget=120)
    fs = [f for f in progcheck.pipeline_behaviour(best)[0] if f["bucket"] == bucket]
    return {"case": best, "detail": fs[0]["detail"] if fs else failure.get("detail", "")}
