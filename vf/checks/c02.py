"""C02 - every individual rewrite rule preserves program behaviour (rule applied in isolation)."""
from __future__ import annotations

import time

from hypothesis import HealthCheck, Phase, given, seed as hseed, settings, strategies as st

from vf import env, hyp, progcheck, known_shapes, trace
from vf.acc import Acc
from vf.gen import families, programs

ID = "C02"
LEVEL = "exploration"
RULE = (
    "cases = (rule, program): every rule that main.py calls (registry built by introspection, plus the other public (source)->str "
    "callables of the rule modules) x programs from the 31 rule-idiom families (+ the numpy family when numpy is installed) and the "
    "typed grammar; all rules per program in thorough, a drawn subset of 14 in quick; rules with a preserve parameter get a drawn "
    "preserve set. Oracle: exec(original) vs exec(rule(original)) in the fuel-bounded oracle: same stdout, normal termination. "
    "Non-trivial = the rule changed the AST of the program; distinct by (rule, program)."
)
ASSUMPTIONS = [
    "a rule is judged only on programs where it changes the text; rules that never fired are listed in the evidence (uncovered_rules)",
    "pandas rules are not covered (pandas is not installable offline); numpy rules run against the real numpy from the wheelhouse",
    "a crash of a rule is judged by C04 (counted here as tool-crash)",
]
EXHAUSTIVE = {"quick": False, "thorough": False}
PREDICATES = known_shapes.PREDICATES


def all_rules():
    rules = list(trace.registry()) + [r for r in trace.extra_rules() if r[1] not in ("get_undefined_variables", "create_abstractions")]
    return [list(r) for r in rules]


def evaluate(case):
    return progcheck.rule_behaviour(case)[0]


def have_numpy():
    try:
        import numpy  # noqa: F401
        return True
    except Exception:
        return False


def plan(tier, seed):
    nsh = 16
    specs = []
    for s in range(nsh):
        specs.append({"kind": "families", "n": (1300 if tier == "quick" else 40000) // nsh, "seed": env.subseed(seed, ID, "fam", s),
                      "nrules": 0, "budget_s": 100 if tier == "quick" else 1500})
        specs.append({"kind": "grammar", "n": (400 if tier == "quick" else 15000) // nsh, "seed": env.subseed(seed, ID, "gram", s),
                      "nrules": 0, "budget_s": 100 if tier == "quick" else 1500})
    return specs


def run_shard(spec):
    acc = Acc()
    t0 = time.time()
    rules = all_rules()
    fired = {}
    crashed = {}
    numpy_ok = have_numpy()
    fam_names = sorted(families.FAMILIES) + (["numpy"] if numpy_ok else [])
    if spec["kind"] == "families":
        strat = families.family_program(names=fam_names)
    else:
        strat = programs.programs().map(lambda s: ("grammar", s))

    def go(data):
        label, src = data.draw(strat)
        src, excluded = known_shapes.neutralise(src)
        for fid in excluded:
            acc.excluded[fid] += 1
        chosen = rules
        if spec["nrules"]:
            chosen = data.draw(st.lists(st.sampled_from(rules), min_size=spec["nrules"], max_size=spec["nrules"], unique_by=lambda r: tuple(r)))
        preserve = []
        if data.draw(st.integers(0, 3)) == 0:
            preserve = ["main", "t", "f", "K"]
        for rule in chosen:
            case = {"src": src, "rule": rule, "preserve": preserve}
            fails, info = progcheck.rule_behaviour(case)
            status = info.get("status", "")
            key = f"{rule[0]}.{rule[1]}"
            if status in ("same", "differs"):
                fired[key] = fired.get(key, 0) + 1
            if status == "tool-crash":
                crashed[key] = crashed.get(key, 0) + 1
            nontrivial = status in ("same", "differs") and info.get("ast_changed", False)
            acc.case(case, nontrivial, [f"status:{status}", f"src:{label}"] if status != "unchanged" else ["status:unchanged"],
                     sample={"rule": key, "src": src})
            acc.fails(fails)

    hyp.run(st.data(), go, spec["n"], spec["seed"], spec["budget_s"], acc, chunk=30)
    acc.extra["rule_fire_counts"] = fired
    acc.extra["rule_crash_counts"] = crashed
    return acc


def shrink(failure):
    bucket = failure["bucket"]

    def still(c):
        return any(f["bucket"] == bucket for f in progcheck.rule_behaviour(c)[0])

    best = progcheck.shrink_program(failure["case"], still, budget=200)
    fs = [f for f in progcheck.rule_behaviour(best)[0] if f["bucket"] == bucket]
    return {"case": best, "detail": fs[0]["detail"] if fs else failure.get("detail", "")}
