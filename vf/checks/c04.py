"""C04 - the formatter is total: never raises, always terminates, invalid input handed back modulo whitespace."""
from __future__ import annotations

import ast
import io
import os
import re
import sys
import textwrap
import time
import warnings

from hypothesis import HealthCheck, Phase, given, seed as hseed, settings, strategies as st

from vf import env, hyp, progcheck, trace
from vf.acc import Acc
from vf.gen import corpus, families, programs, texts

ID = "C04"
LEVEL = "exploration"
GUARD_QUICK = 60
RULE = (
    "inputs: the Python 3.12 syntax zoo, all rule families in all placements, grammar programs, placement metamorphs (first/last "
    "statement with and without trailing newline, nested in def/class/if/else/for/while/try/finally/with, indented fragment) of family "
    "and zoo blocks, adversarial constant conditions (division by zero, ill-typed operators, effectful builtins, empty collections) in "
    "if/while/assert/ifexp/comprehension/boolean-operand position, the repository's own 1017 example snippets, vendored stdlib modules, "
    "indented fragments, token-mutated and arbitrary unicode (invalid) inputs; x drawn {safe, keep_imports, preserve, line length}. "
    "Oracle: returns str, raises nothing (BaseException), writes nothing to stdout, reads no stdin, finishes within the guard (an expiry "
    "is confirmed alone with a 4x larger limit before it counts); for input that is invalid even after dedent the result equals the input "
    "modulo whitespace. Non-trivial = a rule fired, or the input is invalid / indented / adversarial by class; distinct by (input, options)."
)
ASSUMPTIONS = [
    "termination is observed as 'within a generous bound' (60 s quick / 120 s thorough per call, typical cost 0.05-3 s)",
    "str inputs without lone surrogates (such text cannot come from a UTF-8 file)",
    "expensive-to-evaluate constant expressions are capped so that Python itself evaluates them in < 10 ms",
]
EXHAUSTIVE = {"quick": False, "thorough": False}


class _NoStdin(io.StringIO):
    def read(self, *a):
        raise RuntimeError("the formatter read stdin")

    readline = read


def valid_after_dedent(src):
    with warnings.catch_warnings():
        warnings.simplefilter("ignore")
        for cand in (src, textwrap.dedent(src)):
            try:
                ast.parse(cand)
                return True
            except (SyntaxError, ValueError, RecursionError, MemoryError):
                continue
    return False


def tool_normalised_valid(src):
    """The tool judges validity after its own whitespace normalisation (expandtabs/rmspace); mirror that loosely:
    an input counts as invalid only if it is invalid before and after tab expansion."""
    return valid_after_dedent(src) or valid_after_dedent(src.expandtabs(4))


def bare_continuation_line(case):
    """F-C04-21: a line that holds nothing but a backslash (a line continuation in front of a statement)."""
    import re as _re
    return bool(_re.search(r"(?m)^[ \t]*\\\n", case.get("src", "")))


PREDICATES = {"bare_continuation_line": bare_continuation_line}


def evaluate(case, guard=None):
    src = case["src"]
    kw = progcheck.fmt_opts(case.get("opts"))
    fails = []
    env.clear_caches()
    old_stdin = sys.stdin
    sys.stdin = _NoStdin()
    progcheck.GUARD_S = guard or case.get("guard", GUARD_QUICK)
    try:
        with trace.Tracer() as t:
            status, out, printed = progcheck.run_tool(env.mod("main").format_code, src, **kw)
    finally:
        sys.stdin = old_stdin
    case_info["fired"] = dict(t.fired)
    if status == "hang":
        fails.append({"bucket": "hang", "case": case, "detail": f"no result within {progcheck.GUARD_S}s"})
        return fails
    if status == "crash":
        fails.append({"bucket": "exception:" + env.exc_bucket(out), "case": case, "detail": f"{out!r}\n--- input\n{src[:1500]}"})
        return fails
    if not isinstance(out, str):
        fails.append({"bucket": "not-a-string", "case": case, "detail": repr(out)[:300]})
        return fails
    if printed:
        fails.append({"bucket": "wrote-to-stdout", "case": case, "detail": printed[:300]})
    if not tool_normalised_valid(src):
        if re.sub(r"\s+", "", out) != re.sub(r"\s+", "", src):
            fails.append({"bucket": "invalid-input-changed", "case": case, "detail": f"--- input\n{src[:800]}\n--- output\n{out[:800]}"})
    return fails


case_info = {}


def confirm_hang(case, limit):
    """Re-run the single input alone in a forked child with a larger limit."""
    r, w = os.pipe()
    pid = os.fork()
    if pid == 0:
        try:
            os.close(r)
            fails = evaluate(case, guard=limit)
            os.write(w, b"hang" if any(f["bucket"] == "hang" for f in fails) else b"done")
        finally:
            os._exit(0)
    os.close(w)
    data = b""
    while True:
        chunk = os.read(r, 16)
        if not chunk:
            break
        data += chunk
    os.close(r)
    os.waitpid(pid, 0)
    return data == b"hang" or data == b""


@st.composite
def options(draw):
    return {"safe": draw(st.booleans()), "keep_imports": draw(st.integers(0, 3)) == 0,
            "preserve": draw(st.sampled_from([[], [], ["f", "t", "main"], ["x", "K", "nope"]])),
            "max_line_length": draw(st.sampled_from([60, 79, 100, 100, 120]))}


def plan(tier, seed):
    nsh = 16
    q = tier == "quick"
    specs = []
    for s in range(nsh):
        specs.append({"kind": "zoo", "shard": s, "nshards": nsh, "seed": env.subseed(seed, ID, "zoo", s), "budget_s": 60 if q else 600})
        specs.append({"kind": "generated", "n": (4500 if q else 60000) // nsh, "seed": env.subseed(seed, ID, "gen", s), "budget_s": 90 if q else 1500})
        specs.append({"kind": "corpus", "shard": s, "nshards": nsh, "stride": 5 if q else 1, "offset": seed % 5, "real": 6 if q else 45,
                      "seed": env.subseed(seed, ID, "corp", s), "budget_s": 90 if q else 1500})
    return specs


def run_shard(spec):
    acc = Acc()
    t0 = time.time()
    guard = GUARD_QUICK if spec["budget_s"] <= 100 else 120
    fired = {}

    def one(src, opts, classes):
        case = {"src": src, "opts": opts}
        try:
            fails = evaluate(case, guard=guard)
        except (KeyboardInterrupt, env.HarnessError):
            raise
        except BaseException as exc:  # e.g. RecursionError surfacing outside the tool call
            fails = [{"bucket": f"exception:{type(exc).__name__}@outside-call", "case": case, "detail": repr(exc)[:300]}]
        if any(f["bucket"] == "hang" for f in fails):
            if not confirm_hang(case, guard * 4):
                fails = [f for f in fails if f["bucket"] != "hang"]
                acc.hist["slow-but-terminated"] += 1
        f_ = case_info.get("fired", {})
        for r, n in f_.items():
            fired[r] = fired.get(r, 0) + n
        invalid = not tool_normalised_valid(src)
        cls = list(classes) + (["invalid"] if invalid else ["valid"]) + (["rule-fired"] if f_ else [])
        nontrivial = bool(f_) or invalid or bool(set(classes) & {"indented", "adversarial", "metamorph"})
        acc.case(case, nontrivial, cls, sample={"src": src[:400], "opts": opts})
        acc.fails(fails)

    def over_budget():
        if time.time() - t0 > spec["budget_s"]:
            acc.budget_exhausted = True
            return True
        return False

    if spec["kind"] == "zoo":
        idx = 0
        default = {"safe": False, "keep_imports": False, "preserve": [], "max_line_length": 100}
        for z in texts.ZOO:
            for place, src in [("plain", z)] + list(texts.placement_metamorphs(z)):
                idx += 1
                if idx % spec["nshards"] != spec["shard"]:
                    continue
                one(src, default if idx % 3 else dict(default, safe=True), ["zoo", "metamorph" if place != "plain" else "plain", "indented" if place == "fragment" else "top"])
                if over_budget():
                    break
        for b in texts.BLANK_RUNS:
            idx += 1
            if idx % spec["nshards"] == spec["shard"]:
                one(b, default, ["blank-run", "metamorph"])
        for e in texts.ADVERSARIAL_CONDITIONS:
            for ti, t in enumerate(texts.ADVERSARIAL_TEMPLATES):
                idx += 1
                if idx % spec["nshards"] != spec["shard"]:
                    continue
                one(t.format(e=e), default, ["adversarial"])
                if over_budget():
                    break
        acc.extra["rule_fire_counts"] = fired
        return acc

    if spec["kind"] == "corpus":
        default = {"safe": False, "keep_imports": False, "preserve": [], "max_line_length": 100}
        ex = corpus.repo_examples()
        for idx, src in enumerate(ex):
            if idx % spec["nshards"] != spec["shard"] or (idx // spec["nshards"]) % spec["stride"] != spec["offset"] % spec["stride"]:
                continue
            one(src, default if idx % 2 else dict(default, safe=True), ["repo-example"])
            if idx % 7 == 0:
                one(src.rstrip("\n"), default, ["repo-example", "no-trailing-newline"])
            if over_budget():
                break
        real = corpus.realworld()
        for idx, (name, src) in enumerate(real[: spec["real"]] if spec["real"] < len(real) else real):
            if idx % spec["nshards"] != spec["shard"]:
                continue
            one(src, default, ["realworld"])
            if over_budget():
                break
        acc.extra["rule_fire_counts"] = fired
        return acc

    pool = texts.ZOO + [s for s in corpus.repo_examples()[::9]]

    def go(data):
        kind = data.draw(st.sampled_from(["family", "family", "grammar", "invalid", "invalid", "fragment", "adversarial", "adversarial", "metamorph", "literal"]))
        opts = data.draw(options())
        if kind == "family":
            label, src = data.draw(families.family_program())
            one(src, opts, ["family"])
        elif kind == "grammar":
            one(data.draw(programs.programs()), opts, ["grammar"])
        elif kind == "invalid":
            one(data.draw(texts.invalid_source(pool)), opts, ["mutated"])
        elif kind == "fragment":
            one(data.draw(texts.indented_fragment(pool)), opts, ["indented"])
        elif kind == "adversarial":
            one(data.draw(texts.adversarial_program()), opts, ["adversarial"])
        elif kind == "literal":
            one(data.draw(texts.literal_source()), opts, ["literal"])
        else:
            label, src = data.draw(families.family_program())
            metas = list(texts.placement_metamorphs(src))
            place, msrc = data.draw(st.sampled_from(metas))
            one(msrc, opts, ["metamorph", "indented" if place == "fragment" else "top"])

    hyp.run(st.data(), go, spec["n"], spec["seed"], spec["budget_s"], acc)
    acc.extra["rule_fire_counts"] = fired
    return acc


def shrink(failure):
    bucket = failure["bucket"]
    if bucket == "hang":
        return None

    def still(c):
        return any(f["bucket"] == bucket for f in evaluate(c))

    case = failure["case"]
    # line-based reduction works for invalid inputs too
    lines = case["src"].splitlines(keepends=True)
    budget = 150
    i = 0
    while i < len(lines) and budget > 0:
        cand = dict(case, src="".join(lines[:i] + lines[i + 1:]))
        budget -= 1
        try:
            if cand["src"].strip() and still(cand):
                lines = lines[:i] + lines[i + 1:]
                continue
        except BaseException:
            pass
        i += 1
    best = dict(case, src="".join(lines))
    fs = [f for f in evaluate(best) if f["bucket"] == bucket]
    return {"case": best, "detail": fs[0]["detail"] if fs else failure.get("detail", "")}
