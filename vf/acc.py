"""Per-shard accumulator."""
from __future__ import annotations

import collections
import json

from vf import env


class Acc:
    """Per-shard accumulator; everything in it is JSON-able."""

    MAX_SAMPLES = 6

    def __init__(self):
        self.evaluations = 0
        self.nontrivial = set()
        self.hist = collections.Counter()
        self.samples = []
        self.failures = {}  # bucket -> {"bucket","case","detail","count"}
        self.excluded = collections.Counter()
        self.budget_exhausted = False
        self.extra = {}

    def case(self, case, nontrivial: bool, classes=(), sample=None):
        self.evaluations += 1
        if nontrivial:
            self.nontrivial.add(env.h(case))
            if len(self.samples) < self.MAX_SAMPLES:
                self.samples.append(sample if sample is not None else case)
        for c in classes:
            self.hist[c] += 1

    def fail(self, bucket: str, case, detail: str = ""):
        cur = self.failures.get(bucket)
        size = len(json.dumps(case, default=repr))
        if cur is None:
            self.failures[bucket] = {
                "bucket": bucket, "case": case, "detail": str(detail)[:4000], "count": 1, "size": size,
                "others": [],
            }
        else:
            cur["count"] += 1
            if len(cur["others"]) < 12:
                cur["others"].append(case)
            if size < cur["size"]:
                cur["others"].append(cur["case"])
                cur.update(case=case, detail=str(detail)[:4000], size=size)
                cur["others"] = cur["others"][-12:]

    def fails(self, failures):
        for f in failures:
            self.fail(f["bucket"], f["case"], f.get("detail", ""))

    def dump(self):
        return {
            "evaluations": self.evaluations,
            "nontrivial": sorted(self.nontrivial),
            "hist": dict(self.hist),
            "samples": self.samples,
            "failures": list(self.failures.values()),
            "excluded": dict(self.excluded),
            "budget_exhausted": self.budget_exhausted,
            "extra": self.extra,
        }
