"""CLI: ./run <ID> [--tier quick|thorough] [--replay PATH]

Exit 0: property held on everything explored (KNOWN-FINDING lines allowed).
Exit 1: at least one `VIOLATION property=<ID> replay=<path>` line was printed.
Exit 2: harness problem (never a verdict).
"""
from __future__ import annotations

import argparse
import collections
import concurrent.futures
import importlib
import json
import multiprocessing
import os
import re
import sys
import time
import traceback

from vf import env
from vf.acc import Acc

NPROC = int(os.environ.get("VF_NPROC", "16"))


def _worker(args):
    mod_name, spec = args
    try:
        import faulthandler
        import signal
        faulthandler.register(signal.SIGUSR1, all_threads=True)  # kill -USR1 <pid> dumps the stack of a stuck shard to stderr
    except Exception:
        pass
    try:
        check = importlib.import_module(mod_name)
        env.setup()
        out = check.run_shard(spec)
        if isinstance(out, Acc):
            out = out.dump()
        return {"ok": True, "out": out, "spec": spec}
    except BaseException as exc:  # harness error inside a shard
        return {"ok": False, "err": "".join(traceback.format_exception(type(exc), exc, exc.__traceback__)), "spec": spec}


def load_findings():
    path = os.path.join(env.VERIF, "known_findings.json")
    if not os.path.exists(path):
        return []
    with open(path) as fh:
        return json.load(fh)["findings"]


def finding_matches(entry, failure, check) -> bool:
    b = failure["bucket"]
    if "bucket" in entry and entry["bucket"] != b:
        return False
    if "bucket_re" in entry and not re.fullmatch(entry["bucket_re"], b):
        return False
    pred = entry.get("predicate")
    if pred:
        fn = getattr(check, "PREDICATES", {}).get(pred)
        if fn is None:
            raise env.HarnessError(f"finding {entry['id']} names unknown predicate {pred}")
        try:
            return bool(fn(failure["case"]))
        except Exception:
            return False
    return True


def write_replay(pid, failure):
    d = os.path.join(env.VERIF, "replays", pid)
    os.makedirs(d, exist_ok=True)
    safe = re.sub(r"[^A-Za-z0-9_.@-]+", "_", failure["bucket"])[:80]
    path = os.path.join(d, f"{safe}-{env.h(failure['case'])}.json")
    with open(path, "w") as fh:
        json.dump(
            {"property": pid, "bucket": failure["bucket"], "detail": failure.get("detail", ""),
             "case": failure["case"], "seed": env.seed_value()},
            fh, indent=1, default=repr,
        )
    return os.path.relpath(path, env.VERIF)


def evaluate_file(check, path):
    with open(path if os.path.isabs(path) else os.path.join(env.VERIF, path)) as fh:
        data = json.load(fh)
    case = data["case"] if isinstance(data, dict) and "case" in data else data
    env.clear_caches()
    return case, check.evaluate(case)


def main(argv=None):
    ap = argparse.ArgumentParser()
    ap.add_argument("pid")
    ap.add_argument("--tier", default=os.environ.get("VERIF_TIER") or "quick", choices=["quick", "thorough"])
    ap.add_argument("--replay")
    ap.add_argument("--no-evidence", action="store_true")
    args = ap.parse_args(argv)
    pid = args.pid.upper()
    t0 = time.time()
    try:
        env.setup()
        mod_name = f"vf.checks.{pid.lower()}"
        check = importlib.import_module(mod_name)
    except env.HarnessError as exc:
        print(f"HARNESS-ERROR: {exc}")
        return 2
    seed = env.seed_value()

    if args.replay:
        case, fails = evaluate_file(check, args.replay)
        if fails:
            for f in fails:
                print(f"replay fails: bucket={f['bucket']} detail={f.get('detail','')[:2000]}")
            print(f"VIOLATION property={pid} replay={args.replay}")
            return 1
        print("replay passes")
        return 0

    violations = []  # (bucket, replay path)
    known_hits = collections.Counter()
    findings = [f for f in load_findings() if f["property"] == pid]
    known = [f for f in findings if f["status"] == "known"]

    def classify(failure, origin):
        for entry in known:
            if finding_matches(entry, failure, check):
                known_hits[entry["id"]] += failure.get("count", 1)
                return
        shrink = getattr(check, "shrink", None)
        if shrink is not None and origin == "search":
            try:
                small = shrink(failure)
                if small is not None:
                    failure = dict(failure, case=small["case"], detail=small.get("detail", failure.get("detail", "")))
            except BaseException as exc:
                print(f"note: shrinking failed for {failure['bucket']}: {exc!r}")
        path = write_replay(pid, failure)
        violations.append((failure["bucket"], path))
        print(f"violation detail: bucket={failure['bucket']} origin={origin} count={failure.get('count',1)} :: {str(failure.get('detail',''))[:600]}")
        print(f"VIOLATION property={pid} replay={path}")

    # 1. known findings and fixed findings
    try:
        for entry in findings:
            case, fails = evaluate_file(check, entry["replay"])
            if entry["status"] == "known":
                hit = [f for f in fails if finding_matches(entry, f, check)]
                if hit:
                    print(f"KNOWN-FINDING: property={pid} {entry['id']} {entry['what']}")
                    known_hits[entry["id"]] += 1
                else:
                    print(f"note: known finding {entry['id']} no longer reproduces on this tree")
                for f in fails:
                    if f not in hit:
                        classify(f, f"finding-replay:{entry['id']}")
            else:
                for f in fails:
                    classify(dict(f, detail=f"fixed finding {entry['id']} has returned: " + f.get("detail", "")), f"fixed:{entry['id']}")
        # 2. committed regression cases
        rdir = os.path.join(env.VERIF, "regressions", pid)
        nreg = 0
        if os.path.isdir(rdir):
            for name in sorted(os.listdir(rdir)):
                if name.endswith(".json"):
                    nreg += 1
                    case, fails = evaluate_file(check, os.path.join(rdir, name))
                    for f in fails:
                        classify(f, f"regression:{name}")
    except env.HarnessError as exc:
        print(f"HARNESS-ERROR: {exc}")
        return 2

    # 3. the search
    specs = check.plan(args.tier, seed)
    if args.tier == "thorough":
        # Bound the wall time of a thorough run (default about 12 minutes on 16 cores): the shards run in rounds of NPROC,
        # so each shard's time budget is the target divided by the number of rounds. A budget that runs out means
        # "explored less" (recorded as budget_exhausted in the evidence), never a violation. VF_THOROUGH_WALL_S overrides.
        target = int(os.environ.get("VF_THOROUGH_WALL_S", "720"))
        rounds = max(1, -(-len(specs) // NPROC))
        for spec in specs:
            if "budget_s" in spec:
                spec["budget_s"] = min(spec["budget_s"], max(60, target // rounds))
    merged = Acc()
    shard_errors = []
    ctx = multiprocessing.get_context("fork")
    nproc = min(NPROC, max(1, len(specs)))
    try:
        with concurrent.futures.ProcessPoolExecutor(max_workers=nproc, mp_context=ctx) as ex:
            for res in ex.map(_worker, [(mod_name, s) for s in specs]):
                if not res["ok"]:
                    shard_errors.append(res)
                    continue
                out = res["out"]
                merged.evaluations += out["evaluations"]
                merged.nontrivial.update(out["nontrivial"])
                merged.hist.update(out["hist"])
                merged.excluded.update(out.get("excluded", {}))
                merged.budget_exhausted |= bool(out.get("budget_exhausted"))
                for s in out["samples"]:
                    if len(merged.samples) < 12:
                        merged.samples.append(s)
                for f in out["failures"]:
                    cur = merged.failures.get(f["bucket"])
                    if cur is None:
                        merged.failures[f["bucket"]] = f
                    else:
                        cur["count"] += f["count"]
                        cur["others"] = (cur.get("others", []) + [f["case"]] + f.get("others", []))[-12:]
                        if f["size"] < cur["size"]:
                            cur["others"].append(cur["case"])
                            cur.update(case=f["case"], detail=f["detail"], size=f["size"])
                for k, v in out.get("extra", {}).items():
                    if isinstance(v, (int, float)):
                        merged.extra[k] = merged.extra.get(k, 0) + v
                    elif isinstance(v, dict):
                        d = merged.extra.setdefault(k, {})
                        for kk, vv in v.items():
                            d[kk] = d.get(kk, 0) + vv if isinstance(vv, (int, float)) else vv
                    elif isinstance(v, list):
                        merged.extra.setdefault(k, []).extend(v)
                    else:
                        merged.extra[k] = v
    except concurrent.futures.process.BrokenProcessPool as exc:
        print(f"HARNESS-ERROR: a worker process died: {exc!r}")
        return 2
    if shard_errors:
        for e in shard_errors[:3]:
            print("HARNESS-ERROR in shard", json.dumps(e["spec"])[:300])
            print(e["err"])
        return 2

    for failure in sorted(merged.failures.values(), key=lambda f: f["bucket"]):
        # a bucket may hold several inputs; judge each recorded one so that a listed finding
        # cannot hide a different input in the same bucket
        cases = [failure["case"]] + failure.get("others", [])
        unmatched = None
        for c in cases:
            f1 = dict(failure, case=c)
            if any(finding_matches(entry, f1, check) for entry in known):
                continue
            if unmatched is None or len(json.dumps(c, default=repr)) < len(json.dumps(unmatched, default=repr)):
                unmatched = c
        if unmatched is None:
            classify(failure, "search")
        else:
            f1 = dict(failure, case=unmatched)
            if unmatched is not failure["case"]:
                f1["detail"] = "(other input in a bucket that also holds a known finding) " + failure.get("detail", "")
            classify(f1, "search")

    # generator health
    health = getattr(check, "health", None)
    health_msgs = health(merged, args.tier) if health else []

    wall = time.time() - t0
    cov = {
        "evaluations": merged.evaluations,
        "distinct_nontrivial": len(merged.nontrivial),
        "rule": check.RULE,
        "samples": merged.samples[:12],
        "class_histogram": dict(sorted(merged.hist.items())),
        "shards": len(specs),
        "regression_cases_replayed": nreg,
        "known_findings": {k: v for k, v in known_hits.items()},
        "excluded_by_construction": dict(merged.excluded),
        "budget_exhausted": merged.budget_exhausted,
        "exhaustive": bool(getattr(check, "EXHAUSTIVE", {}).get(args.tier, False)) and not merged.budget_exhausted,
        "failure_buckets": {f["bucket"]: f["count"] for f in merged.failures.values()},
        "repo": env.REPO,
    }
    cov.update({k: v for k, v in merged.extra.items()})
    evidence = {
        "property_id": pid,
        "tier": args.tier,
        "seed": seed,
        "level": getattr(check, "LEVEL", "exploration"),
        "coverage": cov,
        "assumptions": list(getattr(check, "ASSUMPTIONS", [])),
        "wall_s": round(wall, 2),
        "violations": len(violations),
    }
    if not args.no_evidence and env.REPO == "/repo":
        os.makedirs(os.path.join(env.VERIF, "evidence"), exist_ok=True)
        with open(os.path.join(env.VERIF, "evidence", f"{pid}.json"), "w") as fh:
            json.dump(evidence, fh, indent=1, default=repr)
    print(
        f"{pid} tier={args.tier} seed={seed} evaluations={merged.evaluations} "
        f"distinct_nontrivial={len(merged.nontrivial)} violations={len(violations)} "
        f"known={dict(known_hits)} wall={wall:.1f}s"
    )
    if health_msgs:
        for m in health_msgs:
            print("HARNESS-ERROR: generator degenerate:", m)
        if not violations:
            return 2
    return 1 if violations else 0


if __name__ == "__main__":
    try:
        code = main()
    except env.HarnessError as exc:
        print(f"HARNESS-ERROR: {exc}")
        code = 2
    except SystemExit:
        raise
    except BaseException:
        traceback.print_exc()
        code = 2
    sys.stdout.flush()
    os._exit(code)
