"""Developer helper: python -m vf.show <ID> <replay.json> -- print the failing case readably."""
import importlib, json, sys
from vf import env
env.setup()
pid, path = sys.argv[1], sys.argv[2]
check = importlib.import_module(f"vf.checks.{pid.lower()}")
data = json.load(open(path))
case = data.get("case", data)
print("BUCKET", data.get("bucket"))
if hasattr(check, "describe"):
    print(check.describe(case))
else:
    print(json.dumps(case, indent=1)[:3000])
for f in check.evaluate(case):
    print("FAIL", f["bucket"]); print(f.get("detail", "")[:3000])
