"""Fuel-bounded, deterministic execution oracle for generated programs.

Observation = (outcome, stdout) where outcome is "ok", the class name of the terminating exception,
"compile-error" or "fuel".  No wall clock is involved: fuel counts trace events.
"""
from __future__ import annotations

import builtins
import io
import sys

F0 = 200_000


class FuelExhausted(BaseException):
    pass


class _Exit(BaseException):
    pass


def _make_builtins(out, extra=None):
    b = dict(vars(builtins))

    def _print(*args, sep=" ", end="\n", file=None, flush=False):
        out.write(sep.join(str(a) for a in args) + end)

    def _exit(*a, **k):
        raise _Exit()

    def _input(*a, **k):
        raise EOFError("no stdin in the oracle")

    b["print"] = _print
    b["exit"] = b["quit"] = _exit
    b["input"] = _input
    b["breakpoint"] = lambda *a, **k: None

    def _pager(name):
        def f(*a, **k):
            out.write(f"<{name} text>\n")
        return f

    for name in ("help", "license", "copyright", "credits"):
        b[name] = _pager(name)

    def _open(*a, **k):
        raise PermissionError("no file access in the oracle")

    b["open"] = _open
    if extra:
        b.update(extra)
    return b


def run(source: str, fuel: int = F0, extra_builtins=None, extra_globals=None, filename="<prog>"):
    """Execute `source` as __main__; return dict(outcome, stdout, used)."""
    out = io.StringIO()
    try:
        code = compile(source, filename, "exec")
    except (SyntaxError, ValueError) as exc:
        return {"outcome": "compile-error", "stdout": "", "used": 0, "error": repr(exc)}
    used = [0]

    def tracer(frame, event, arg):
        used[0] += 1
        if used[0] > fuel:
            raise FuelExhausted()
        return tracer

    g = {"__name__": "__main__", "__builtins__": _make_builtins(out, extra_builtins)}
    if extra_globals:
        g.update(extra_globals)
    outcome = "ok"
    error = ""
    old_limit = sys.getrecursionlimit()
    old_trace = sys.gettrace()
    sys.setrecursionlimit(400)
    try:
        sys.settrace(tracer)
        try:
            exec(code, g)
        finally:
            sys.settrace(old_trace)
    except FuelExhausted:
        outcome = "fuel"
    except _Exit:
        outcome = "SystemExit"
    except BaseException as exc:  # the program's own failure is an observation, not a harness error
        if type(exc).__name__ == "CaseTimeout":
            raise
        outcome = type(exc).__name__
        error = repr(exc)[:300]
    finally:
        sys.setrecursionlimit(old_limit)
    return {"outcome": outcome, "stdout": out.getvalue(), "used": used[0], "error": error}


def same(a, b) -> bool:
    return a["outcome"] == b["outcome"] and a["stdout"] == b["stdout"]


def compare(original_src: str, new_src: str, fuel: int = F0, **kw):
    """Returns (verdict, orig_obs, new_obs); verdict in {"skip:<why>", "same", "<failure class>"}."""
    a = run(original_src, fuel, **kw)
    if a["outcome"] != "ok":
        return "skip:" + a["outcome"], a, None
    b = run(new_src, 50 * a["used"] + 10_000, **kw)
    if same(a, b):
        return "same", a, b
    if b["outcome"] == "compile-error":
        return "does-not-compile", a, b
    if b["outcome"] == "fuel":
        return "no-termination", a, b
    if b["outcome"] != "ok":
        return "raises-" + b["outcome"], a, b
    return "stdout-differs", a, b
