"""Program shapes that trigger recorded (unrepaired) findings of the behaviour properties (C01, C02, C09...).

`neutralise(src)` rewrites a generated program so that the shape no longer occurs (exclusion by construction,
counted per finding); PREDICATES are the named input predicates that known_findings.json entries refer to.
"""
from __future__ import annotations

import ast
import re

COMPOSABLE = [
    "for_append", "for_dict", "dict_literal", "collection_literal", "comp_then_add", "nested_comp", "map_filter_lambda", "with_filter",
    "zip_enumerate", "dict_items", "builtin_chains", "defaultdict", "math", "starred",
]

# (finding id, predicate over source text, rewrite making the shape disappear)
_SHAPES = []


def shape(fid):
    def deco(fn):
        _SHAPES.append((fid, fn))
        return fn
    return deco


def neutralise(src):
    hit = []
    for fid, fn in _SHAPES:
        new = fn(src)
        if new is not None and new != src:
            hit.append(fid)
            src = new
    return src, hit


def _has(pattern):
    rx = re.compile(pattern, re.S)
    return lambda case: bool(rx.search(case.get("src", "")))


PREDICATES = {}


def _src(case):
    return case.get("src", "")


def prints_defaultdict(case):
    """F-C01-01: a dict filled through the 'if k in d: d[k].append(..) else: d[k] = [..]' idiom is printed/compared as a dict."""
    s = _src(case)
    return bool(re.search(r"if \w+( not)? in (\w+):", s)) and bool(re.search(r"\[\w+.*\]\s*(=|\+=)", s)) and "= {}" in s


def duplicate_dict_key(case):
    """F-C01-02: a dict display (possibly built by merging assignments) repeats a constant key with another key in between."""
    try:
        tree = ast.parse(_src(case))
    except SyntaxError:
        return False
    for node in ast.walk(tree):
        if isinstance(node, ast.Dict):
            keys = [ast.dump(k) if k is not None else None for k in node.keys]
            for i, k in enumerate(keys):
                if k is not None and k in keys[i + 2:]:
                    return True
    # sequences of subscript assignments / updates to the same constant key are merged into such a display first
    subs = re.findall(r"^\s*(\w+)\[(\d+)\] = ", _src(case), re.M) + re.findall(r"^\s*(\w+)\.update\(\{(\d+):", _src(case), re.M)
    return len(subs) != len(set(subs))


def symbolic_range_sum(case):
    """F-C01-03: a sum (or an accumulation loop that becomes one) over range() with a non-constant bound."""
    s = _src(case)
    return bool(re.search(r"range\([^)]*[A-Za-z_]", s)) and ("sum(" in s or "+=" in s)


def double_zip_star(case):
    return "zip(*zip(*" in _src(case).replace(" ", "")


def zip_underscore(case):
    """F-C01-05: a zip() whose targets include '_' (or an unused target that becomes '_')."""
    return "zip(" in _src(case)


def boolop_constant_operand(case):
    """F-C01-06: an and/or expression with a constant (or constant-foldable) operand next to an operand with a call."""
    try:
        tree = ast.parse(_src(case))
    except SyntaxError:
        return False
    for node in ast.walk(tree):
        if isinstance(node, ast.BoolOp):
            has_call = any(isinstance(n, ast.Call) for v in node.values for n in ast.walk(v))
            has_const = any(not any(isinstance(n, ast.Name) for n in ast.walk(v)) for v in node.values)
            if has_call and has_const:
                return True
    return False


def eq_singleton(case):
    """F-C01-07: '== True/False' or '!= True/False' where the other operand need not be a bool."""
    return bool(re.search(r"[!=]=\s*(True|False)\b|\b(True|False)\s*[!=]=", _src(case)))


PREDICATES.update({
    "eq_singleton": eq_singleton,
    "prints_defaultdict": prints_defaultdict, "duplicate_dict_key": duplicate_dict_key, "symbolic_range_sum": symbolic_range_sum,
    "double_zip_star": double_zip_star, "zip_underscore": zip_underscore, "boolop_constant_operand": boolop_constant_operand,
})


def rebinds_builtin(case):
    """F-C01-38: the module defines or assigns a name of a builtin (def len(..), len = ..) and calls it on constants."""
    import builtins
    try:
        tree = ast.parse(_src(case))
    except SyntaxError:
        return False
    bound = {n.name for n in ast.walk(tree) if isinstance(n, (ast.FunctionDef, ast.AsyncFunctionDef, ast.ClassDef))}
    bound |= {n.id for n in ast.walk(tree) if isinstance(n, ast.Name) and isinstance(n.ctx, ast.Store)}
    return any(hasattr(builtins, name) for name in bound)


PREDICATES["rebinds_builtin"] = rebinds_builtin
