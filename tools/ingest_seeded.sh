#!/bin/bash
# Developer helper: verify a sub-agent's seeded change and store it under /verif/seeded/<ID>-<name>/.
# usage: tools/ingest_seeded.sh <ID> <dir with patch.diff demo.py notes.txt> 
set -u
ID=$1; SRC=$2; NAME=$(basename "$SRC"); DEST=/verif/seeded/$ID-$NAME
WT=$(mktemp -d /tmp/vfy_XXXXXX); rmdir "$WT"
git -C /repo worktree add --detach "$WT" HEAD >/dev/null 2>&1 || { echo "worktree failed"; exit 2; }
cleanup() { git -C /repo worktree remove --force "$WT" >/dev/null 2>&1; git -C /repo worktree prune; }
trap cleanup EXIT
cd "$WT"
PYTHONPATH=$WT /venv/bin/python "$SRC/demo.py" >/dev/null 2>&1; clean=$?
git apply "$SRC/patch.diff" || { echo "PATCH DOES NOT APPLY"; exit 1; }
PYTHONPATH=$WT /venv/bin/python -m pytest -q -p no:cacheprovider 2>&1 | tail -1 > /tmp/ingest_pytest.txt; 
PYTHONPATH=$WT /venv/bin/python tests/main.py >/dev/null 2>&1; up=$?
PYTHONPATH=$WT /venv/bin/python "$SRC/demo.py" >/tmp/ingest_demo.txt 2>&1; patched=$?
echo "$ID-$NAME: demo clean=$clean patched=$patched upstream_tests_exit=$up pytest: $(cat /tmp/ingest_pytest.txt)"
if [ $clean -eq 0 ] && [ $patched -eq 1 ] && grep -q "58 passed" /tmp/ingest_pytest.txt; then
  mkdir -p "$DEST"; cp "$SRC/patch.diff" "$SRC/demo.py" "$DEST/"; cp "$SRC/notes.txt" "$DEST/" 2>/dev/null
  echo "stored $DEST (upstream tests/main.py exit $up)"
else
  echo "NOT STORED"; tail -5 /tmp/ingest_demo.txt
fi
